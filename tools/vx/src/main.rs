//! vx — mechanical extractor: copies items byte-for-byte from /repo sources, applies the
//! declared rewrite rules (DESIGN.md §3.2, R1–R12), splices contract text from a unit file at
//! structural anchors, and writes one Verus input file plus a JSON log (line map + every edit).
//!
//! usage: vx <repo_root> <specs_dir> <unit_file> <out.rs> <out.json> [-D VAR=VALUE]...
//! exit 0: generated; exit 2: an item / anchor / expected pattern was not found (UNDECIDED).

use proc_macro2::{TokenStream, TokenTree};
use serde_json::{json, Value};
use std::collections::HashMap;
use std::fmt::Write as _;
use syn::spanned::Spanned;
use syn::visit::{self, Visit};

#[derive(Clone, Copy, Debug, PartialEq)]
struct Rng {
    lo: usize,
    hi: usize,
}
impl Rng {
    fn contains(&self, o: &Rng) -> bool {
        self.lo <= o.lo && o.hi <= self.hi
    }
}

fn rng<T: Spanned>(t: &T) -> Rng {
    let r = t.span().byte_range();
    Rng { lo: r.start, hi: r.end }
}

fn die(msg: &str) -> ! {
    println!("VX-ERROR: {msg}");
    std::process::exit(2);
}

fn norm(s: &str) -> String {
    s.chars().filter(|c| !c.is_whitespace()).collect()
}

// ---------------------------------------------------------------------------------------------
// node collection inside an item

#[derive(Debug, Clone)]
enum Kind {
    While { cond_end: usize, body: Rng },
    For { expr: Rng, body: Rng },
    Loop { kw_end: usize, body: Rng },
    If { cond: Rng, then: Rng, els: Option<Rng> },
    Match { arms: Vec<Rng> },
    Let { name: Option<String> },
    Stmt,
    Call { name: String, args: Vec<Rng> },
    Assign { lhs: String },
    LogStmt,
    TupleAssign { elems: Vec<String>, rhs: String },
    RangeIdxCall { method: String, base: Rng, base_txt: String },
    BorrowMutIdx { recv: Rng },
    Closure { body: Rng },
    Jump { what: char },
    Attr,
    Vis,
    Ident { name: String },
    Block,
}

#[derive(Debug, Clone)]
struct Node {
    kind: Kind,
    r: Rng,
}

struct Collect<'s> {
    src: &'s str,
    nodes: Vec<Node>,
}

impl<'s> Collect<'s> {
    fn txt(&self, r: Rng) -> &'s str {
        &self.src[r.lo..r.hi]
    }
    fn push(&mut self, kind: Kind, r: Rng) {
        self.nodes.push(Node { kind, r });
    }
    fn walk_tokens(&mut self, ts: TokenStream) {
        for tt in ts {
            match tt {
                TokenTree::Ident(id) => {
                    let r = id.span().byte_range();
                    self.push(Kind::Ident { name: id.to_string() }, Rng { lo: r.start, hi: r.end });
                }
                TokenTree::Group(g) => self.walk_tokens(g.stream()),
                _ => {}
            }
        }
    }
}

impl<'ast, 's> Visit<'ast> for Collect<'s> {
    fn visit_expr_while(&mut self, n: &'ast syn::ExprWhile) {
        self.push(Kind::While { cond_end: rng(&*n.cond).hi, body: rng(&n.body) }, rng(n));
        visit::visit_expr_while(self, n);
    }
    fn visit_expr_for_loop(&mut self, n: &'ast syn::ExprForLoop) {
        self.push(Kind::For { expr: rng(&*n.expr), body: rng(&n.body) }, rng(n));
        visit::visit_expr_for_loop(self, n);
    }
    fn visit_expr_loop(&mut self, n: &'ast syn::ExprLoop) {
        self.push(Kind::Loop { kw_end: rng(&n.loop_token).hi, body: rng(&n.body) }, rng(n));
        visit::visit_expr_loop(self, n);
    }
    fn visit_expr_if(&mut self, n: &'ast syn::ExprIf) {
        let els = n.else_branch.as_ref().map(|(_, e)| rng(&**e));
        self.push(Kind::If { cond: rng(&*n.cond), then: rng(&n.then_branch), els }, rng(n));
        visit::visit_expr_if(self, n);
    }
    fn visit_expr_match(&mut self, n: &'ast syn::ExprMatch) {
        let arms = n.arms.iter().map(|a| rng(&*a.body)).collect();
        self.push(Kind::Match { arms }, rng(n));
        visit::visit_expr_match(self, n);
    }
    fn visit_expr_closure(&mut self, n: &'ast syn::ExprClosure) {
        self.push(Kind::Closure { body: rng(&*n.body) }, rng(n));
        visit::visit_expr_closure(self, n);
    }
    fn visit_expr_return(&mut self, n: &'ast syn::ExprReturn) {
        self.push(Kind::Jump { what: 'R' }, rng(n));
        visit::visit_expr_return(self, n);
    }
    fn visit_expr_break(&mut self, n: &'ast syn::ExprBreak) {
        self.push(Kind::Jump { what: 'B' }, rng(n));
        visit::visit_expr_break(self, n);
    }
    fn visit_expr_continue(&mut self, n: &'ast syn::ExprContinue) {
        self.push(Kind::Jump { what: 'K' }, rng(n));
        visit::visit_expr_continue(self, n);
    }
    fn visit_expr_try(&mut self, n: &'ast syn::ExprTry) {
        self.push(Kind::Jump { what: 'T' }, rng(n));
        visit::visit_expr_try(self, n);
    }
    fn visit_block(&mut self, n: &'ast syn::Block) {
        self.push(Kind::Block, rng(n));
        visit::visit_block(self, n);
    }
    fn visit_stmt(&mut self, n: &'ast syn::Stmt) {
        let r = rng(n);
        match n {
            syn::Stmt::Local(l) => {
                let name = match &l.pat {
                    syn::Pat::Ident(pi) => Some(pi.ident.to_string()),
                    syn::Pat::Type(pt) => match &*pt.pat {
                        syn::Pat::Ident(pi) => Some(pi.ident.to_string()),
                        _ => None,
                    },
                    _ => None,
                };
                self.push(Kind::Let { name }, r);
            }
            syn::Stmt::Macro(m) => {
                let p = &m.mac.path;
                if p.segments.first().map(|s| s.ident == "log").unwrap_or(false) {
                    self.push(Kind::LogStmt, r);
                }
            }
            syn::Stmt::Expr(e, _) => {
                if let syn::Expr::Macro(m) = e {
                    if m.mac.path.segments.first().map(|s| s.ident == "log").unwrap_or(false) {
                        self.push(Kind::LogStmt, r);
                    }
                }
            }
            _ => {}
        }
        self.push(Kind::Stmt, r);
        visit::visit_stmt(self, n);
    }
    fn visit_expr_call(&mut self, n: &'ast syn::ExprCall) {
        if let syn::Expr::Path(p) = &*n.func {
            if let Some(last) = p.path.segments.last() {
                let args = n.args.iter().map(|a| rng(a)).collect();
                self.push(Kind::Call { name: last.ident.to_string(), args }, rng(n));
            }
        }
        visit::visit_expr_call(self, n);
    }
    fn visit_expr_method_call(&mut self, n: &'ast syn::ExprMethodCall) {
        let margs = n.args.iter().map(|a| rng(a)).collect();
        self.push(Kind::Call { name: n.method.to_string(), args: margs }, rng(n));
        if n.method == "borrow_mut" && n.args.is_empty() {
            if let syn::Expr::Index(_) = &*n.receiver {
                self.push(Kind::BorrowMutIdx { recv: rng(&*n.receiver) }, rng(n));
            }
        }
        if let syn::Expr::Index(ix) = &*n.receiver {
            if matches!(&*ix.index, syn::Expr::Range(_)) {
                let b = rng(&*ix.expr);
                self.push(
                    Kind::RangeIdxCall { method: n.method.to_string(), base: b, base_txt: norm(self.txt(b)) },
                    rng(n),
                );
            }
        }
        visit::visit_expr_method_call(self, n);
    }
    fn visit_expr_assign(&mut self, n: &'ast syn::ExprAssign) {
        let l = rng(&*n.left);
        if let syn::Expr::Tuple(t) = &*n.left {
            let elems = t.elems.iter().map(|e| self.txt(rng(e)).to_string()).collect();
            let rhs = self.txt(rng(&*n.right)).to_string();
            self.push(Kind::TupleAssign { elems, rhs }, rng(n));
        }
        self.push(Kind::Assign { lhs: norm(self.txt(l)) }, rng(n));
        visit::visit_expr_assign(self, n);
    }
    fn visit_expr_binary(&mut self, n: &'ast syn::ExprBinary) {
        use syn::BinOp::*;
        if matches!(
            n.op,
            AddAssign(_) | SubAssign(_) | MulAssign(_) | DivAssign(_) | RemAssign(_) | BitXorAssign(_)
                | BitAndAssign(_) | BitOrAssign(_) | ShlAssign(_) | ShrAssign(_)
        ) {
            let l = rng(&*n.left);
            self.push(Kind::Assign { lhs: norm(self.txt(l)) }, rng(n));
        }
        visit::visit_expr_binary(self, n);
    }
    fn visit_attribute(&mut self, n: &'ast syn::Attribute) {
        self.push(Kind::Attr, rng(n));
    }
    fn visit_visibility(&mut self, n: &'ast syn::Visibility) {
        if !matches!(n, syn::Visibility::Inherited) {
            self.push(Kind::Vis, rng(n));
        }
    }
    fn visit_ident(&mut self, n: &'ast proc_macro2::Ident) {
        let r = n.span().byte_range();
        self.push(Kind::Ident { name: n.to_string() }, Rng { lo: r.start, hi: r.end });
    }
    fn visit_macro(&mut self, n: &'ast syn::Macro) {
        // the arguments of the print/format family are ordinary expressions: parse them so that an `if` (etc.) inside
        // is addressable by an anchor path like any other; everything else stays an opaque token stream
        let name = n.path.segments.last().map(|s| s.ident.to_string()).unwrap_or_default();
        if matches!(name.as_str(), "println" | "print" | "eprintln" | "eprint" | "format") {
            if let Ok(args) = n.parse_body_with(syn::punctuated::Punctuated::<syn::Expr, syn::Token![,]>::parse_terminated) {
                let mut sub = Collect { src: self.src, nodes: Vec::new() };
                for e in args.iter() {
                    sub.visit_expr(e);
                }
                self.nodes.extend(sub.nodes);
                visit::visit_macro(self, n);
                return;
            }
        }
        self.walk_tokens(n.tokens.clone());
        visit::visit_macro(self, n);
    }
}

// ---------------------------------------------------------------------------------------------
// located items

struct Located<'a> {
    whole: Rng,
    sig: Option<&'a syn::Signature>,
    block: Option<&'a syn::Block>,
    nodes: Vec<Node>,
}

struct Src {
    rel: String,
    text: String,
    file: syn::File,
}

fn type_last_ident(t: &syn::Type) -> Option<String> {
    match t {
        syn::Type::Path(p) => p.path.segments.last().map(|s| s.ident.to_string()),
        syn::Type::Reference(r) => type_last_ident(&r.elem),
        _ => None,
    }
}

fn locate<'a>(src: &'a Src, sel: &[String]) -> Located<'a> {
    let s: Vec<&str> = sel.iter().map(|x| x.as_str()).collect();
    let mut found: Vec<Located<'a>> = Vec::new();
    let mk = |whole: Rng, sig: Option<&'a syn::Signature>, block: Option<&'a syn::Block>, f: &dyn Fn(&mut Collect)| {
        let mut c = Collect { src: &src.text, nodes: Vec::new() };
        f(&mut c);
        Located { whole, sig, block, nodes: c.nodes }
    };
    match s.as_slice() {
        ["fn", name] => {
            for it in &src.file.items {
                if let syn::Item::Fn(f) = it {
                    if f.sig.ident == name {
                        found.push(mk(rng(f), Some(&f.sig), Some(&f.block), &|c| c.visit_item_fn(f)));
                    }
                }
            }
        }
        ["struct", name] => {
            for it in &src.file.items {
                if let syn::Item::Struct(f) = it {
                    if f.ident == name {
                        found.push(mk(rng(f), None, None, &|c| c.visit_item_struct(f)));
                    }
                }
            }
        }
        ["enum", name] => {
            for it in &src.file.items {
                if let syn::Item::Enum(f) = it {
                    if f.ident == name {
                        found.push(mk(rng(f), None, None, &|c| c.visit_item_enum(f)));
                    }
                }
            }
        }
        ["const", name] => {
            for it in &src.file.items {
                if let syn::Item::Const(f) = it {
                    if f.ident == name {
                        found.push(mk(rng(f), None, None, &|c| c.visit_item_const(f)));
                    }
                }
            }
        }
        ["impl", ty, "fn", name] => {
            for it in &src.file.items {
                if let syn::Item::Impl(im) = it {
                    if im.trait_.is_none() && type_last_ident(&im.self_ty).as_deref() == Some(ty) {
                        for ii in &im.items {
                            if let syn::ImplItem::Fn(f) = ii {
                                if f.sig.ident == name {
                                    found.push(mk(rng(f), Some(&f.sig), Some(&f.block), &|c| c.visit_impl_item_fn(f)));
                                }
                            }
                        }
                    }
                }
            }
        }
        ["impl", tr, "for", ty, "fn", name] => {
            for it in &src.file.items {
                if let syn::Item::Impl(im) = it {
                    let tr_ok = im
                        .trait_
                        .as_ref()
                        .and_then(|(_, p, _)| p.segments.last().map(|s| s.ident == tr))
                        .unwrap_or(false);
                    if tr_ok && type_last_ident(&im.self_ty).as_deref() == Some(ty) {
                        for ii in &im.items {
                            if let syn::ImplItem::Fn(f) = ii {
                                if f.sig.ident == name {
                                    found.push(mk(rng(f), Some(&f.sig), Some(&f.block), &|c| c.visit_impl_item_fn(f)));
                                }
                            }
                        }
                    }
                }
            }
        }
        ["trait", tr, "fn", name] => {
            for it in &src.file.items {
                if let syn::Item::Trait(t) = it {
                    if t.ident == tr {
                        for ti in &t.items {
                            if let syn::TraitItem::Fn(f) = ti {
                                if f.sig.ident == name {
                                    found.push(mk(rng(f), Some(&f.sig), f.default.as_ref(), &|c| c.visit_trait_item_fn(f)));
                                }
                            }
                        }
                    }
                }
            }
        }
        _ => die(&format!("bad selector: {}", sel.join(" "))),
    }
    if found.len() != 1 {
        die(&format!("selector `{}` in {} matched {} items (need exactly 1)", sel.join(" "), src.rel, found.len()));
    }
    found.pop().unwrap()
}

// ---------------------------------------------------------------------------------------------
// anchors

fn within<'n>(nodes: &'n [Node], scope: Rng, pred: &dyn Fn(&Kind) -> bool) -> Vec<&'n Node> {
    let mut v: Vec<&Node> = nodes
        .iter()
        .filter(|n| scope.contains(&n.r) && n.r != scope && pred(&n.kind))
        .collect();
    v.sort_by(|a, b| a.r.lo.cmp(&b.r.lo).then(b.r.hi.cmp(&a.r.hi)));
    v
}

fn within_incl<'n>(nodes: &'n [Node], scope: Rng, pred: &dyn Fn(&Kind) -> bool) -> Vec<&'n Node> {
    let mut v: Vec<&Node> = nodes.iter().filter(|n| scope.contains(&n.r) && pred(&n.kind)).collect();
    v.sort_by(|a, b| a.r.lo.cmp(&b.r.lo).then(b.r.hi.cmp(&a.r.hi)));
    v
}

fn enclosing_stmt(nodes: &[Node], r: Rng) -> Option<Rng> {
    nodes
        .iter()
        .filter(|n| matches!(n.kind, Kind::Stmt) && n.r.contains(&r))
        .min_by_key(|n| n.r.hi - n.r.lo)
        .map(|n| n.r)
}

fn parse_ord(s: &str, prefix: &str) -> Option<usize> {
    s.strip_prefix(prefix).and_then(|t| t.parse::<usize>().ok())
}

/// split "name(arg)N" into (arg, N)
fn parse_fn_ord(s: &str, prefix: &str) -> Option<(String, usize)> {
    let t = s.strip_prefix(prefix)?.strip_prefix('(')?;
    let close = t.rfind(')')?;
    let arg = t[..close].to_string();
    let n = if t[close + 1..].is_empty() { 0 } else { t[close + 1..].parse().ok()? };
    Some((arg, n))
}

enum Res {
    Off(usize),
    Node(Node),
}

/// Resolve an anchor path: to a byte offset if it ends in a terminal (begin/end/before/after/start/stop),
/// else to the node it selects.  Err = some element was not found.
fn resolve(loc: &Located, path: &str, what: &str) -> Result<Res, String> {
    let body = match loc.block {
        Some(b) => rng(b),
        None => die(&format!("{what}: anchor `{path}` on an item without a body")),
    };
    let mut scope = body; // region searched by the next element
    let mut cur: Option<Node> = None; // last selected node
    let mut cur_stmt: Option<Rng> = None;
    let parts: Vec<&str> = path.split('/').collect();
    for (i, p) in parts.iter().enumerate() {
        let last = i + 1 == parts.len();
        macro_rules! nf {
            () => {
                return Err(format!("{what}: anchor `{path}`: element `{p}` not found"))
            };
        }
        let loop_kind = if parse_ord(p, "loop").is_some() {
            Some(("loop", 0))
        } else if parse_ord(p, "for").is_some() {
            Some(("for", 1))
        } else if parse_ord(p, "while").is_some() {
            Some(("while", 2))
        } else {
            None
        };
        if let Some((pre, kind)) = loop_kind {
            let n = parse_ord(p, pre).unwrap();
            let v = within(&loc.nodes, scope, &|k| match k {
                Kind::While { .. } => kind == 0 || kind == 2,
                Kind::For { .. } => kind == 0 || kind == 1,
                Kind::Loop { .. } => kind == 0,
                _ => false,
            });
            let nd = match v.get(n) {
                Some(x) => *x,
                None => nf!(),
            };
            scope = match &nd.kind {
                Kind::While { body, .. } | Kind::For { body, .. } | Kind::Loop { body, .. } => *body,
                _ => unreachable!(),
            };
            cur_stmt = enclosing_stmt(&loc.nodes, nd.r);
            cur = Some(nd.clone());
        } else if let Some(n) = parse_ord(p, "if") {
            let v = within(&loc.nodes, scope, &|k| matches!(k, Kind::If { .. }));
            let nd = match v.get(n) {
                Some(x) => *x,
                None => nf!(),
            };
            scope = nd.r;
            cur_stmt = enclosing_stmt(&loc.nodes, nd.r);
            cur = Some(nd.clone());
        } else if let Some((name, n)) = parse_fn_ord(p, "ifcall") {
            // the n-th `if` in scope whose condition calls `name`
            let calls: Vec<Rng> = loc.nodes.iter().filter(|x| matches!(&x.kind, Kind::Call { name: c, .. } if *c == name)).map(|x| x.r).collect();
            let v = within(&loc.nodes, scope, &|k| match k {
                Kind::If { cond, .. } => calls.iter().any(|c| cond.contains(c)),
                _ => false,
            });
            let nd = match v.get(n) {
                Some(x) => *x,
                None => nf!(),
            };
            scope = nd.r;
            cur_stmt = enclosing_stmt(&loc.nodes, nd.r);
            cur = Some(nd.clone());
        } else if *p == "cond" {
            match &cur {
                Some(Node { kind: Kind::If { cond, .. }, .. }) => {
                    scope = *cond;
                    cur = Some(Node { kind: Kind::Block, r: scope });
                }
                _ => nf!(),
            }
        } else if *p == "then" || *p == "else" {
            match &cur {
                Some(Node { kind: Kind::If { then, els, .. }, .. }) => {
                    scope = if *p == "then" {
                        *then
                    } else {
                        match els {
                            Some(e) => *e,
                            None => nf!(),
                        }
                    };
                    cur = Some(Node { kind: Kind::Block, r: scope });
                }
                _ => nf!(),
            }
        } else if let Some(n) = parse_ord(p, "match") {
            let v = within(&loc.nodes, scope, &|k| matches!(k, Kind::Match { .. }));
            let nd = match v.get(n) {
                Some(x) => *x,
                None => nf!(),
            };
            scope = nd.r;
            cur_stmt = enclosing_stmt(&loc.nodes, nd.r);
            cur = Some(nd.clone());
        } else if let Some(n) = parse_ord(p, "closure") {
            let v = within(&loc.nodes, scope, &|k| matches!(k, Kind::Closure { .. }));
            let nd = match v.get(n) {
                Some(x) => *x,
                None => nf!(),
            };
            scope = match &nd.kind {
                Kind::Closure { body } => *body,
                _ => unreachable!(),
            };
            cur_stmt = enclosing_stmt(&loc.nodes, nd.r);
            cur = Some(Node { kind: Kind::Block, r: scope });
        } else if let Some(n) = parse_ord(p, "arm") {
            match &cur {
                Some(Node { kind: Kind::Match { arms }, .. }) => {
                    scope = match arms.get(n) {
                        Some(x) => *x,
                        None => nf!(),
                    };
                    cur = Some(Node { kind: Kind::Block, r: scope });
                }
                _ => nf!(),
            }
        } else if let Some((name, n)) = parse_fn_ord(p, "let") {
            let v = within(&loc.nodes, scope, &|k| matches!(k, Kind::Let { name: Some(x) } if *x == name));
            let nd = match v.get(n) {
                Some(x) => *x,
                None => nf!(),
            };
            cur_stmt = Some(nd.r);
            cur = Some(nd.clone());
        } else if let Some((name, n)) = parse_fn_ord(p, "call") {
            let v = within(&loc.nodes, scope, &|k| matches!(k, Kind::Call { name: x, .. } if *x == name));
            let nd = match v.get(n) {
                Some(x) => *x,
                None => nf!(),
            };
            cur_stmt = enclosing_stmt(&loc.nodes, nd.r);
            cur = Some(nd.clone());
        } else if let Some(n) = parse_ord(p, "arg") {
            // the n-th argument expression of the call selected before
            match &cur {
                Some(Node { kind: Kind::Call { args, .. }, .. }) => {
                    scope = match args.get(n) {
                        Some(x) => *x,
                        None => nf!(),
                    };
                    cur = Some(Node { kind: Kind::Block, r: scope });
                }
                _ => nf!(),
            }
        } else if let Some((lhs, n)) = parse_fn_ord(p, "assign") {
            let want = norm(&lhs);
            let v = within(&loc.nodes, scope, &|k| matches!(k, Kind::Assign { lhs: x } if *x == want));
            let nd = match v.get(n) {
                Some(x) => *x,
                None => nf!(),
            };
            cur_stmt = enclosing_stmt(&loc.nodes, nd.r);
            cur = Some(nd.clone());
        } else if *p == "begin" && last {
            // just after the `{` of the current block scope
            if loc_text_byte(loc, scope.lo) != b'{' {
                die(&format!("{what}: anchor `{path}`: `begin` on a non-block scope"));
            }
            return Ok(Res::Off(scope.lo + 1));
        } else if *p == "end" && last {
            if loc_text_byte(loc, scope.hi - 1) != b'}' {
                die(&format!("{what}: anchor `{path}`: `end` on a non-block scope"));
            }
            return Ok(Res::Off(scope.hi - 1));
        } else if *p == "start" && last {
            match &cur {
                Some(c) => return Ok(Res::Off(c.r.lo)),
                None => nf!(),
            }
        } else if *p == "stop" && last {
            match &cur {
                Some(c) => return Ok(Res::Off(c.r.hi)),
                None => nf!(),
            }
        } else if *p == "before" && last {
            match cur_stmt {
                Some(c) => return Ok(Res::Off(c.lo)),
                None => nf!(),
            }
        } else if *p == "after" && last {
            match cur_stmt {
                Some(c) => return Ok(Res::Off(c.hi)),
                None => nf!(),
            }
        } else {
            die(&format!("{what}: anchor `{path}`: unknown element `{p}`"));
        }
    }
    match cur {
        Some(n) => Ok(Res::Node(n)),
        None => die(&format!("{what}: empty anchor `{path}`")),
    }
}

/// Resolve an anchor path to a byte offset in the source file (exit 2 if not found).
fn resolve_anchor(loc: &Located, path: &str, what: &str) -> usize {
    match resolve(loc, path, what) {
        Ok(Res::Off(o)) => o,
        Ok(Res::Node(_)) => die(&format!("{what}: anchor `{path}` has no terminal (begin/end/before/after/start/stop)")),
        Err(e) => die(&e),
    }
}

thread_local! { static CUR_TEXT: std::cell::RefCell<String> = std::cell::RefCell::new(String::new()); }
thread_local! { static PLAIN: std::cell::Cell<bool> = std::cell::Cell::new(false); }
fn loc_text_byte(_loc: &Located, off: usize) -> u8 {
    CUR_TEXT.with(|t| t.borrow().as_bytes()[off])
}

// ---------------------------------------------------------------------------------------------
// unit file

#[derive(Default, Debug, Clone)]
struct ItemSpec {
    selector: Vec<String>,
    line: usize,
    ret: Option<String>,
    contract: Option<String>,
    loops: Vec<(String, String)>,
    forghost: Vec<(String, String)>,
    ats: Vec<(String, String)>,
    external_body: bool,
    sigonly: bool,
    attr: Option<String>,
    rename: Option<String>,
    mutself: Option<String>,
    drop_generics: Vec<String>,
    retype: Vec<(String, String, String)>,
    derive_set: Option<String>,
    frag: Option<(String, String, String, String)>, // start anchor, end anchor, header, tail
    tag: Option<String>,
    identity_borrow_mut: bool,
}

#[derive(Debug)]
enum Cmd {
    Use(String),
    Plain,
    Text(String, usize),
    Source(String),
    Subst(String, String),
    Unsubst(String),
    VecPlace(String),
    Item(ItemSpec),
}

fn preprocess(text: &str, vars: &HashMap<String, String>, what: &str) -> String {
    let mut out = String::new();
    let mut stack: Vec<(bool, bool)> = Vec::new(); // (active, seen_true)
    for (ln, line) in text.lines().enumerate() {
        let t = line.trim();
        if let Some(rest) = t.strip_prefix("@if ") {
            let parts: Vec<&str> = rest.split_whitespace().collect();
            if parts.len() != 3 || (parts[1] != "==" && parts[1] != "!=") {
                die(&format!("{what}:{}: bad @if", ln + 1));
            }
            let v = vars.get(parts[0]).cloned().unwrap_or_default();
            let c = (v == parts[2]) == (parts[1] == "==");
            stack.push((c, c));
            out.push('\n');
            continue;
        }
        if t == "@else" {
            let (_, seen) = stack.pop().unwrap_or_else(|| die(&format!("{what}:{}: @else without @if", ln + 1)));
            stack.push((!seen, true));
            out.push('\n');
            continue;
        }
        if t == "@endif" {
            stack.pop().unwrap_or_else(|| die(&format!("{what}:{}: @endif without @if", ln + 1)));
            out.push('\n');
            continue;
        }
        if stack.iter().all(|(a, _)| *a) {
            let mut l = line.to_string();
            for (k, v) in vars {
                l = l.replace(&format!("${{{k}}}"), v);
            }
            if l.contains("${") {
                die(&format!("{what}:{}: unresolved variable in `{}`", ln + 1, l.trim()));
            }
            out.push_str(&l);
        }
        out.push('\n');
    }
    if !stack.is_empty() {
        die(&format!("{what}: unterminated @if"));
    }
    out
}

fn cur_item<'c>(cmds: &'c mut Vec<Cmd>, what: &str, i: usize, word: &str) -> &'c mut ItemSpec {
    match cmds.last_mut() {
        Some(Cmd::Item(it)) => it,
        _ => die(&format!("{what}:{}: `{word}` outside an item", i + 1)),
    }
}

fn parse_unit(text: &str, what: &str) -> Vec<Cmd> {
    let lines: Vec<&str> = text.lines().collect();
    let mut cmds: Vec<Cmd> = Vec::new();
    let mut i = 0;
    // reads a `<<<` ... `>>>` block starting on line i (the rest of line after <<<), returns text
    fn block(lines: &[&str], i: &mut usize, first_rest: &str, what: &str) -> String {
        let rest = first_rest.trim();
        let after = rest.strip_prefix("<<<").unwrap_or_else(|| die(&format!("{what}:{}: expected <<<", *i + 1)));
        if let Some(pos) = after.find(">>>") {
            return after[..pos].trim().to_string();
        }
        let mut s = String::new();
        if !after.trim().is_empty() {
            s.push_str(after);
            s.push('\n');
        }
        loop {
            *i += 1;
            if *i >= lines.len() {
                die(&format!("{what}: unterminated <<< block"));
            }
            let l = lines[*i];
            if l.trim() == ">>>" {
                break;
            }
            s.push_str(l);
            s.push('\n');
        }
        s
    }
    while i < lines.len() {
        let line = lines[i];
        let t = line.trim();
        if t.is_empty() || t.starts_with('#') {
            i += 1;
            continue;
        }
        let (word, rest) = match t.find(char::is_whitespace) {
            Some(p) => (&t[..p], t[p..].trim()),
            None => (t, ""),
        };
        match word {
            "use" => cmds.push(Cmd::Use(rest.to_string())),
            "plain" => cmds.push(Cmd::Plain),
            "text" => {
                let ln = i + 1;
                let b = block(&lines, &mut i, rest, what);
                cmds.push(Cmd::Text(b, ln));
            }
            "source" => cmds.push(Cmd::Source(rest.to_string())),
            "subst" => {
                let mut p = rest.splitn(2, char::is_whitespace);
                let a = p.next().unwrap_or("").to_string();
                let b = p.next().unwrap_or("").trim().to_string();
                cmds.push(Cmd::Subst(a, b));
            }
            "unsubst" => cmds.push(Cmd::Unsubst(rest.to_string())),
            "vecplace" => cmds.push(Cmd::VecPlace(norm(rest))),
            "item" => {
                let sel: Vec<String> = rest.split_whitespace().map(|x| x.to_string()).collect();
                cmds.push(Cmd::Item(ItemSpec { selector: sel, line: i + 1, ..Default::default() }));
            }
            "frag" => {
                // frag <start-anchor> <end-anchor> header <<< ... >>>   (tail given by `fragtail`)
                let mut p = rest.splitn(3, char::is_whitespace);
                let a = p.next().unwrap_or("").to_string();
                let b = p.next().unwrap_or("").to_string();
                let r = p.next().unwrap_or("").trim();
                let r = r.strip_prefix("header").unwrap_or(r);
                let h = block(&lines, &mut i, r, what);
                cur_item(&mut cmds, what, i, word).frag = Some((a, b, h, String::from("}")));
            }
            "fragtail" => {
                let b = block(&lines, &mut i, rest, what);
                let it = cur_item(&mut cmds, what, i, word);
                match &mut it.frag {
                    Some(f) => f.3 = b,
                    None => die(&format!("{what}:{}: fragtail without frag", i + 1)),
                }
            }
            "ret" => cur_item(&mut cmds, what, i, word).ret = Some(rest.to_string()),
            "tag" => cur_item(&mut cmds, what, i, word).tag = Some(rest.to_string()),
            "contract" => {
                let b = block(&lines, &mut i, rest, what);
                cur_item(&mut cmds, what, i, word).contract = Some(b);
            }
            "loop" => {
                let mut p = rest.splitn(2, char::is_whitespace);
                let n: String = p.next().map(|x| x.to_string()).unwrap_or_else(|| die(&format!("{what}:{}: loop N|path", i + 1)));
                let b = block(&lines, &mut i, p.next().unwrap_or(""), what);
                cur_item(&mut cmds, what, i, word).loops.push((n, b));
            }
            "forghost" => {
                let mut p = rest.split_whitespace();
                let n: String = p.next().map(|x| x.to_string()).unwrap_or_else(|| die(&format!("{what}:{}: forghost N|path NAME", i + 1)));
                let name = p.next().unwrap_or_else(|| die(&format!("{what}:{}: forghost N NAME", i + 1))).to_string();
                cur_item(&mut cmds, what, i, word).forghost.push((n, name));
            }
            "at" => {
                let mut p = rest.splitn(2, char::is_whitespace);
                let a = p.next().unwrap_or("").to_string();
                let b = block(&lines, &mut i, p.next().unwrap_or(""), what);
                cur_item(&mut cmds, what, i, word).ats.push((a, b));
            }
            "external_body" => cur_item(&mut cmds, what, i, word).external_body = true,
            "sigonly" => cur_item(&mut cmds, what, i, word).sigonly = true,
            "attr" => {
                let b = block(&lines, &mut i, rest, what);
                cur_item(&mut cmds, what, i, word).attr = Some(b);
            }
            "identity-borrow-mut" => cur_item(&mut cmds, what, i, word).identity_borrow_mut = true,
            "rename" => cur_item(&mut cmds, what, i, word).rename = Some(rest.to_string()),
            "mutself" => cur_item(&mut cmds, what, i, word).mutself = Some(rest.to_string()),
            "drop-generic" => cur_item(&mut cmds, what, i, word).drop_generics.push(rest.to_string()),
            "derive-set" => cur_item(&mut cmds, what, i, word).derive_set = Some(rest.to_string()),
            "retype" => {
                // retype NAME <<<new>>> expect <<<old>>>
                let mut p = rest.splitn(2, char::is_whitespace);
                let name = p.next().unwrap_or("").to_string();
                let r = p.next().unwrap_or("").trim();
                let pos = r.find("expect").unwrap_or_else(|| die(&format!("{what}:{}: retype needs `expect`", i + 1)));
                let new = r[..pos].trim().trim_start_matches("<<<").trim_end_matches(">>>").trim().to_string();
                let old = r[pos + 6..].trim().trim_start_matches("<<<").trim_end_matches(">>>").trim().to_string();
                cur_item(&mut cmds, what, i, word).retype.push((name, new, old));
            }
            _ => die(&format!("{what}:{}: unknown directive `{word}`", i + 1)),
        }
        i += 1;
    }
    cmds
}

// ---------------------------------------------------------------------------------------------
// edits

#[derive(Debug, Clone)]
struct Edit {
    lo: usize,
    hi: usize,
    new: String,
    rule: String,
    tag: Option<String>,
    seq: usize,
}

struct Out {
    text: String,
    line: usize, // current 1-based line of the next char
}
impl Out {
    fn push(&mut self, s: &str) {
        self.line += s.matches('\n').count();
        self.text.push_str(s);
    }
}

fn main() {
    let args: Vec<String> = std::env::args().collect();
    if args.len() < 6 {
        eprintln!("usage: vx <repo_root> <specs_dir> <unit_file> <out.rs> <out.json> [-D VAR=VALUE]...");
        std::process::exit(2);
    }
    let repo = &args[1];
    let specs = &args[2];
    let unit_path = &args[3];
    let out_rs = &args[4];
    let out_json = &args[5];
    let mut vars: HashMap<String, String> = HashMap::new();
    let mut i = 6;
    let mut vac = false;
    while i < args.len() {
        if args[i] == "--vac" {
            vac = true;
            i += 1;
        } else if args[i] == "-D" && i + 1 < args.len() {
            let (k, v) = args[i + 1].split_once('=').unwrap_or_else(|| die("bad -D"));
            vars.insert(k.to_string(), v.to_string());
            i += 2;
        } else {
            die(&format!("bad argument {}", args[i]));
        }
    }
    let unit_raw = std::fs::read_to_string(unit_path).unwrap_or_else(|e| die(&format!("{unit_path}: {e}")));
    // includes are expanded textually before parsing: `include <file>` at directive level
    let mut expanded = String::new();
    for line in unit_raw.lines() {
        if let Some(f) = line.trim().strip_prefix("include ") {
            let p = format!("{specs}/{}", f.trim());
            let inc = std::fs::read_to_string(&p).unwrap_or_else(|e| die(&format!("{p}: {e}")));
            expanded.push_str("text <<<\n");
            expanded.push_str(&inc);
            if !inc.ends_with('\n') {
                expanded.push('\n');
            }
            expanded.push_str(">>>\n");
        } else {
            expanded.push_str(line);
            expanded.push('\n');
        }
    }
    let unit_text = preprocess(&expanded, &vars, unit_path);
    let cmds = parse_unit(&unit_text, unit_path);

    let mut srcs: HashMap<String, Src> = HashMap::new();
    let mut cur_src: Option<String> = None;
    let mut subst: Vec<(String, String)> = Vec::new();
    let mut vecplaces: Vec<String> = Vec::new();
    let mut uses: Vec<String> = Vec::new();
    let mut body = Out { text: String::new(), line: 1 };
    let mut items_log: Vec<Value> = Vec::new();
    let mut texts_log: Vec<Value> = Vec::new();
    let mut vacs_log: Vec<Value> = Vec::new();
    let mut bytes_copied = 0usize;

    // header lines are emitted first; count them so line numbers are right
    for c in &cmds {
        if let Cmd::Use(u) = c {
            uses.push(u.clone());
        }
    }
    let plain = cmds.iter().any(|c| matches!(c, Cmd::Plain));
    PLAIN.with(|p| p.set(plain)); // plain (non-Verus) units keep visibility: fragment crates are used from outside
    let mut header = String::from("// GENERATED by vx from /repo on every run — do not edit\n");
    if !plain {
        header.push_str("#![allow(unused)]\nuse vstd::prelude::*;\n");
    }
    for u in &uses {
        let _ = writeln!(header, "use {u};");
    }
    if !plain {
        header.push_str("verus! {\n");
    }
    body.push(&header);

    for c in cmds {
        match c {
            Cmd::Use(_) | Cmd::Plain => {}
            Cmd::Text(t, ln) => {
                let start = body.line;
                body.push(&t);
                if !t.ends_with('\n') {
                    body.push("\n");
                }
                texts_log.push(json!({"unit_line": ln, "gen_lines": [start, body.line - 1]}));
            }
            Cmd::Source(rel) => {
                if !srcs.contains_key(&rel) {
                    // `@specs/<file>`: a plain-Rust helper source kept with the specs (e.g. mirrors shared with Kani)
                    let p = match rel.strip_prefix("@specs/") {
                        Some(r) => format!("{specs}/{r}"),
                        None => format!("{repo}/{rel}"),
                    };
                    let text = std::fs::read_to_string(&p).unwrap_or_else(|e| die(&format!("{p}: {e}")));
                    let file = syn::parse_file(&text).unwrap_or_else(|e| die(&format!("{p}: parse error: {e}")));
                    srcs.insert(rel.clone(), Src { rel: rel.clone(), text, file });
                }
                cur_src = Some(rel);
            }
            Cmd::Subst(a, b) => {
                subst.retain(|(x, _)| *x != a);
                subst.push((a, b));
            }
            Cmd::Unsubst(a) => subst.retain(|(x, _)| *x != a),
            Cmd::VecPlace(p) => vecplaces.push(p),
            Cmd::Item(spec) => {
                let rel = cur_src.clone().unwrap_or_else(|| die("item before source"));
                let src = &srcs[&rel];
                CUR_TEXT.with(|t| *t.borrow_mut() = src.text.clone());
                let what = format!("{}:{} item `{}`", unit_path, spec.line, spec.selector.join(" "));
                let loc = locate(src, &spec.selector);
                let (emitted, edits_log, splices, copied) = emit_item(src, &loc, &spec, &subst, &vecplaces, &what);
                let shape_region = match &spec.frag {
                    Some((a, b, _, _)) => Rng { lo: resolve_anchor(&loc, a, &what), hi: resolve_anchor(&loc, b, &what) },
                    None => match loc.block {
                        Some(b) => rng(b),
                        None => loc.whole,
                    },
                };
                let shape = shape_of(&loc.nodes, shape_region);
                let start = body.line;
                if let Some(a) = &spec.attr {
                    body.push(a.trim_end());
                    body.push("\n");
                }
                let item_start = body.line;
                body.push(&emitted);
                body.push("\n");
                bytes_copied += copied;
                if vac {
                    if let Some(vtxt) = vac_fn(src, &loc, &spec, &subst) {
                        let v0 = body.line;
                        body.push(&vtxt);
                        body.push("\n");
                        vacs_log.push(json!({"guard_for": qname(&spec), "gen_lines": [v0, body.line - 1]}));
                    }
                }
                // splices carry offsets (line within emitted text); convert to generated lines
                let spl: Vec<Value> = splices
                    .iter()
                    .map(|(tag, l0, l1)| json!({"tag": tag, "gen_lines": [item_start + l0, item_start + l1]}))
                    .collect();
                let src_line0 = src.text[..loc.whole.lo].matches('\n').count() + 1;
                let src_line1 = src.text[..loc.whole.hi].matches('\n').count() + 1;
                items_log.push(json!({
                    "selector": spec.selector.join(" "),
                    "name": qname(&spec),
                    "kind": spec.selector.first().cloned().unwrap_or_default(),
                    "has_contract": spec.contract.is_some(),
                    "source": rel,
                    "src_lines": [src_line0, src_line1],
                    "src_bytes": [loc.whole.lo, loc.whole.hi],
                    "gen_lines": [start, body.line - 1],
                    "external_body": spec.external_body || spec.attr.as_ref().map(|a| a.contains("external_body")).unwrap_or(false),
                    "sigonly": spec.sigonly,
                    "fragment": spec.frag.is_some(),
                    "shape": shape,
                    "edits": edits_log,
                    "splices": spl,
                }));
            }
        }
    }
    if !plain {
        body.push("} // verus!\nfn main() {}\n");
    }
    std::fs::write(out_rs, &body.text).unwrap_or_else(|e| die(&format!("{out_rs}: {e}")));
    let log = json!({
        "unit": unit_path,
        "vars": vars,
        "bytes_copied": bytes_copied,
        "items": items_log,
        "texts": texts_log,
        "vacuity_guards": vacs_log,
    });
    std::fs::write(out_json, serde_json::to_string_pretty(&log).unwrap()).unwrap_or_else(|e| die(&format!("{out_json}: {e}")));
}

/// must-fail guard: `proof fn vac_f(params) requires <f's requires> { assert(false); }` — if Verus proves it, the
/// precondition of f is contradictory and every obligation of f is vacuous.
fn vac_fn(src: &Src, loc: &Located, spec: &ItemSpec, subst: &[(String, String)]) -> Option<String> {
    let sig = loc.sig?;
    if spec.frag.is_some() || spec.sigonly {
        return None;
    }
    // trait declarations (no body) are skipped: a proof fn with a body cannot live in the trait
    if loc.block.is_none() {
        return None;
    }
    if matches!(spec.selector.first().map(|x| x.as_str()), Some("trait")) {
        return None;
    }
    let c = spec.contract.as_ref()?;
    let ri = c.find("requires")?;
    let rest = &c[ri + "requires".len()..];
    let end = rest.find("ensures").unwrap_or(rest.len());
    let mut req = rest[..end].trim().trim_end_matches(',').to_string();
    if req.is_empty() {
        return None;
    }
    // old(x) / *old(x) -> x ; self -> self_
    loop {
        let Some(i) = req.find("old(") else { break };
        let j = req[i..].find(')')? + i;
        let inner = req[i + 4..j].to_string();
        let star = i > 0 && req.as_bytes()[i - 1] == b'*';
        let lo = if star { i - 1 } else { i };
        req.replace_range(lo..j + 1, &inner);
    }
    let mut out = String::new();
    let b = req.as_bytes();
    let mut k = 0;
    while k < b.len() {
        if req[k..].starts_with("self")
            && (k == 0 || !(b[k - 1].is_ascii_alphanumeric() || b[k - 1] == b'_'))
            && (k + 4 >= b.len() || !(b[k + 4].is_ascii_alphanumeric() || b[k + 4] == b'_'))
        {
            out.push_str("self_");
            k += 4;
        } else {
            out.push(b[k] as char);
            k += 1;
        }
    }
    let mut params: Vec<String> = Vec::new();
    for a in &sig.inputs {
        match a {
            syn::FnArg::Receiver(_) => params.push("self_: Self".to_string()),
            syn::FnArg::Typed(pt) => {
                let name = src.text[rng(&*pt.pat).lo..rng(&*pt.pat).hi].trim_start_matches("mut ").to_string();
                let mut ty = src.text[rng(&*pt.ty).lo..rng(&*pt.ty).hi].to_string();
                for (n, new, _) in &spec.retype {
                    if *n == name {
                        ty = new.clone();
                    }
                }
                if let Some(t) = ty.strip_prefix("&mut ") {
                    ty = t.to_string();
                }
                for (from, to) in subst {
                    // whole-word replacement
                    let mut res = String::new();
                    let tb = ty.as_bytes();
                    let mut q = 0;
                    while q < tb.len() {
                        if ty[q..].starts_with(from.as_str())
                            && (q == 0 || !(tb[q - 1].is_ascii_alphanumeric() || tb[q - 1] == b'_'))
                            && (q + from.len() >= tb.len() || !(tb[q + from.len()].is_ascii_alphanumeric() || tb[q + from.len()] == b'_'))
                        {
                            res.push_str(to);
                            q += from.len();
                        } else {
                            res.push(tb[q] as char);
                            q += 1;
                        }
                    }
                    ty = res;
                }
                params.push(format!("{name}: {ty}"));
            }
        }
    }
    let fname = spec.rename.clone().unwrap_or_else(|| sig.ident.to_string());
    Some(format!(
        "// vacuity guard (must FAIL): the precondition of `{}` is satisfiable\nproof fn vac_{}({})\n    requires {}\n{{ assert(false); }}",
        qname(spec), fname, params.join(", "), out
    ))
}

/// control-flow shape of a region: loops / ifs / matches / closures / jumps in source order with their nesting depth.
/// The proof text of a unit is written for one shape; the driver treats failures in a function whose shape changed
/// as "restructured" (undecided unless a shape-independent check finds a concrete failing input).
fn shape_of(nodes: &[Node], region: Rng) -> String {
    let ctl: Vec<&Node> = nodes
        .iter()
        .filter(|n| region.contains(&n.r))
        .filter(|n| matches!(n.kind, Kind::While { .. } | Kind::For { .. } | Kind::Loop { .. } | Kind::If { .. } | Kind::Match { .. } | Kind::Closure { .. } | Kind::Jump { .. }))
        .collect();
    let mut v: Vec<&Node> = ctl.clone();
    v.sort_by(|a, b| a.r.lo.cmp(&b.r.lo).then(b.r.hi.cmp(&a.r.hi)));
    let mut out = String::new();
    for n in v {
        let depth = ctl.iter().filter(|m| m.r.contains(&n.r) && m.r != n.r && !matches!(m.kind, Kind::Jump { .. })).count();
        let tok = match &n.kind {
            Kind::While { .. } => "W".to_string(),
            Kind::For { .. } => "F".to_string(),
            Kind::Loop { .. } => "L".to_string(),
            Kind::If { els, .. } => if els.is_some() { "Ie".to_string() } else { "I".to_string() },
            Kind::Match { arms } => format!("M{}", arms.len()),
            Kind::Closure { .. } => "C".to_string(),
            Kind::Jump { what } => what.to_string(),
            _ => String::new(),
        };
        let _ = write!(out, "{depth}{tok} ");
    }
    out.trim_end().to_string()
}

fn qname(spec: &ItemSpec) -> String {
    if let Some(t) = &spec.tag {
        return t.clone();
    }
    let s: Vec<&str> = spec.selector.iter().map(|x| x.as_str()).collect();
    let last = spec.rename.clone().unwrap_or_else(|| s.last().map(|x| x.to_string()).unwrap_or_default());
    match s.as_slice() {
        ["impl", ty, "fn", _] => format!("{ty}::{last}"),
        ["impl", tr, "for", _, "fn", _] => format!("{tr}::{last}"),
        ["trait", tr, "fn", _] => format!("{tr}::{last}(decl)"),
        _ => last,
    }
}

/// Returns (emitted text, edits log, splices as (tag, first line offset, last line offset) within the emitted text)
fn emit_item(
    src: &Src,
    loc: &Located,
    spec: &ItemSpec,
    subst: &[(String, String)],
    vecplaces: &[String],
    what: &str,
) -> (String, Vec<Value>, Vec<(String, usize, usize)>, usize) {
    let text = &src.text;
    let mut edits: Vec<Edit> = Vec::new();
    let mut seq = 0usize;
    let mut add = |edits: &mut Vec<Edit>, lo: usize, hi: usize, new: String, rule: &str, tag: Option<String>| {
        seq += 1;
        edits.push(Edit { lo, hi, new, rule: rule.to_string(), tag, seq });
    };
    let fname = qname(spec);

    // the region that is emitted: whole item, or a fragment of the body
    let mut region = loc.whole;
    let mut frag_wrap: Option<(String, String)> = None;
    if let Some((a, b, h, tail)) = &spec.frag {
        let lo = resolve_anchor(loc, a, what);
        let hi = resolve_anchor(loc, b, what);
        if lo >= hi {
            die(&format!("{what}: empty fragment"));
        }
        region = Rng { lo, hi };
        frag_wrap = Some((h.clone(), tail.clone()));
    }

    // R2: attributes (doc comments included), R11: visibility
    let mut derive_seen: Option<String> = None;
    for n in &loc.nodes {
        if !region.contains(&n.r) {
            continue;
        }
        match &n.kind {
            Kind::Attr => {
                let t = &text[n.r.lo..n.r.hi];
                if norm(t).starts_with("#[derive(") {
                    derive_seen = Some(norm(t));
                }
                // swallow the trailing newline+indent if the attribute stands alone on its line
                add(&mut edits, n.r.lo, n.r.hi, String::new(), "R2-attr", None);
            }
            Kind::Vis if !PLAIN.with(|p| p.get()) => {
                let mut hi = n.r.hi;
                while hi < text.len() && text.as_bytes()[hi] == b' ' {
                    hi += 1;
                }
                add(&mut edits, n.r.lo, hi, String::new(), "R11-vis", None);
            }
            Kind::LogStmt => {
                add(&mut edits, n.r.lo, n.r.hi, String::new(), "R4-log", None);
            }
            Kind::TupleAssign { elems, rhs } => {
                // R8: (a, b, c) = t;  →  a = t.0; b = t.1; c = t.2   (t must be a plain identifier)
                if !rhs.chars().all(|c| c.is_alphanumeric() || c == '_') {
                    die(&format!("{what}: R8 destructuring assignment with non-identifier right-hand side `{rhs}`"));
                }
                let mut s = String::new();
                for (i, e) in elems.iter().enumerate() {
                    if i > 0 {
                        s.push_str("; ");
                    }
                    let _ = write!(s, "{e} = {rhs}.{i}");
                }
                add(&mut edits, n.r.lo, n.r.hi, s, "R8-destructure", None);
            }
            Kind::RangeIdxCall { method, base, base_txt } => {
                if method == "copy_from_slice" && vecplaces.iter().any(|p| p == base_txt) {
                    add(&mut edits, base.hi, base.hi, ".as_mut_slice()".to_string(), "R10-as_mut_slice", None);
                }
            }
            Kind::BorrowMutIdx { recv } => {
                // R13: `place[i].borrow_mut()` through the blanket `impl<T> BorrowMut<T> for T` is `&mut place[i]`
                if spec.identity_borrow_mut {
                    add(&mut edits, recv.lo, recv.lo, "(&mut ".to_string(), "R13-identity-borrow_mut", None);
                    add(&mut edits, recv.hi, n.r.hi, ")".to_string(), "R13-identity-borrow_mut", None);
                }
            }
            Kind::Ident { name } => {
                if let Some((_, to)) = subst.iter().find(|(a, _)| a == name) {
                    add(&mut edits, n.r.lo, n.r.hi, to.clone(), "R1-subst", None);
                } else if let Some(ms) = &spec.mutself {
                    if name == "self" {
                        if let Some(b) = loc.block {
                            if rng(b).contains(&n.r) {
                                add(&mut edits, n.r.lo, n.r.hi, ms.clone(), "R12-mutself", None);
                            }
                        }
                    }
                }
            }
            _ => {}
        }
    }
    if let Some(ds) = &spec.derive_set {
        let seen = derive_seen.clone().unwrap_or_default();
        for d in ds.split(',').map(|x| x.trim()).filter(|x| !x.is_empty()) {
            if d != "Structural" && !seen.contains(d) {
                die(&format!("{what}: derive-set names `{d}` which the source does not derive ({seen})"));
            }
        }
        add(&mut edits, region.lo, region.lo, format!("#[derive({ds})]\n"), "R2-derive", None);
    }

    // signature-level edits
    if let (Some(sig), None) = (loc.sig, &spec.frag) {
        if let Some(nn) = &spec.rename {
            let r = rng(&sig.ident);
            add(&mut edits, r.lo, r.hi, nn.clone(), "rename", None);
        }
        if let Some(ms) = &spec.mutself {
            // R12: `mut self` receiver → `self`, body starts with `let mut <ms> = self;`
            match sig.inputs.first() {
                Some(syn::FnArg::Receiver(rc)) if rc.mutability.is_some() && rc.reference.is_none() => {
                    let m = rng(&rc.mutability.unwrap());
                    let mut hi = m.hi;
                    while text.as_bytes()[hi] == b' ' {
                        hi += 1;
                    }
                    add(&mut edits, m.lo, hi, String::new(), "R12-mutself", None);
                    let b = rng(loc.block.unwrap_or_else(|| die(&format!("{what}: mutself without body"))));
                    add(&mut edits, b.lo + 1, b.lo + 1, format!(" let mut {ms} = self;"), "R12-mutself", None);
                }
                _ => die(&format!("{what}: mutself: receiver is not `mut self`")),
            }
        }
        for (name, new, old) in &spec.retype {
            let mut done = false;
            for a in &sig.inputs {
                if let syn::FnArg::Typed(pt) = a {
                    if let syn::Pat::Ident(pi) = &*pt.pat {
                        if pi.ident == name {
                            let r = rng(&*pt.ty);
                            if norm(&text[r.lo..r.hi]) != norm(old) {
                                die(&format!("{what}: retype {name}: source type is `{}`, expected `{old}`", &text[r.lo..r.hi]));
                            }
                            add(&mut edits, r.lo, r.hi, new.clone(), "R3-retype", None);
                            done = true;
                        }
                    }
                }
            }
            if !done {
                die(&format!("{what}: retype: no parameter `{name}`"));
            }
        }
        // return-value name
        let sig_end;
        match &sig.output {
            syn::ReturnType::Type(_, ty) => {
                let r = rng(&**ty);
                sig_end = r.hi;
                if let Some(rn) = &spec.ret {
                    add(&mut edits, r.lo, r.lo, format!("({rn}: "), "R5-ret", None);
                    add(&mut edits, r.hi, r.hi, ")".to_string(), "R5-ret", None);
                }
            }
            syn::ReturnType::Default => {
                sig_end = rng(&sig.paren_token.span.close()).hi;
                if spec.ret.is_some() {
                    die(&format!("{what}: `ret` on a function without return type"));
                }
            }
        }
        if let Some(c) = &spec.contract {
            add(&mut edits, sig_end, sig_end, format!("\n{}\n", c.trim_end()), "R5-contract", Some(format!("{fname}.contract")));
        }
        if spec.external_body || spec.sigonly {
            match loc.block {
                Some(b) => {
                    let r = rng(b);
                    if spec.sigonly {
                        add(&mut edits, r.lo, r.hi, ";".to_string(), "R7-sigonly", None);
                    } else {
                        add(&mut edits, r.lo, r.hi, "{ unimplemented!() }".to_string(), "R7-external_body", None);
                    }
                }
                None => {
                    if spec.external_body {
                        die(&format!("{what}: external_body on a bodiless fn"));
                    }
                }
            }
        }
    } else if loc.sig.is_none() {
        // struct / enum / const: generics + field retype
        if !spec.drop_generics.is_empty() || !spec.retype.is_empty() {
            struct_edits(src, loc, spec, &mut |lo, hi, new, rule| add(&mut edits, lo, hi, new, rule, None), what);
        }
    }

    if !(spec.external_body || spec.sigonly) {
        // loop specs
        if loc.block.is_some() {
            let b = rng(loc.block.unwrap());
            let scope = if spec.frag.is_some() { region } else { b };
            let loops = if spec.frag.is_some() {
                within_incl(&loc.nodes, scope, &|k| matches!(k, Kind::While { .. } | Kind::For { .. } | Kind::Loop { .. }))
            } else {
                within(&loc.nodes, scope, &|k| matches!(k, Kind::While { .. } | Kind::For { .. } | Kind::Loop { .. }))
            };
            // a loop is addressed by its ordinal in the emitted region, or by a structural path
            // (`loop2/while0`); a leading `?` makes the directive optional (skipped if the path does not exist)
            let find_loop = |key: &str| -> Option<Node> {
                let (opt, k) = match key.strip_prefix('?') {
                    Some(r) => (true, r),
                    None => (false, key),
                };
                if let Ok(n) = k.parse::<usize>() {
                    match loops.get(n) {
                        Some(x) => Some((*x).clone()),
                        None if opt => None,
                        None => die(&format!("{what}: loop {n} not found ({} loops)", loops.len())),
                    }
                } else {
                    match resolve(loc, k, what) {
                        Ok(Res::Node(nd)) if matches!(nd.kind, Kind::While { .. } | Kind::For { .. } | Kind::Loop { .. }) => Some(nd),
                        Ok(_) => die(&format!("{what}: `{k}` does not select a loop")),
                        Err(_) if opt => None,
                        Err(e) => die(&e),
                    }
                }
            };
            for (n, txt) in &spec.loops {
                let nd = match find_loop(n) {
                    Some(x) => x,
                    None => continue,
                };
                let pos = match &nd.kind {
                    Kind::While { cond_end, .. } => *cond_end,
                    Kind::For { expr, .. } => expr.hi,
                    Kind::Loop { kw_end, .. } => *kw_end,
                    _ => unreachable!(),
                };
                add(&mut edits, pos, pos, format!("\n{}\n", txt.trim_end()), "R5-loop", Some(format!("{fname}.loop[{}]", n.trim_start_matches('?'))));
            }
            for (n, name) in &spec.forghost {
                let nd = match find_loop(n) {
                    Some(x) => x,
                    None => continue,
                };
                match &nd.kind {
                    Kind::For { expr, .. } => add(&mut edits, expr.lo, expr.lo, format!("{name}: "), "R5-forghost", None),
                    _ => die(&format!("{what}: forghost {n}: not a for loop")),
                }
            }
            for (a, txt) in &spec.ats {
                let (opt, ap) = match a.strip_prefix('?') {
                    Some(r) => (true, r),
                    None => (false, a.as_str()),
                };
                let pos = match resolve(loc, ap, what) {
                    Ok(Res::Off(o)) => o,
                    Ok(Res::Node(_)) => die(&format!("{what}: anchor `{ap}` has no terminal")),
                    Err(_) if opt => continue,
                    Err(e) => die(&e),
                };
                // a proof block may declare that it *carries* a contract clause: its lemma preconditions describe the
                // state the code must have produced, so a failure inside it is a failure of that clause
                let carries = txt.lines().find_map(|l| l.trim().strip_prefix("// carries:").map(|x| x.trim().to_string()));
                let tag = match carries {
                    Some(c) => format!("{fname}.at:{ap}#carries:{c}"),
                    None => format!("{fname}.at:{ap}"),
                };
                add(&mut edits, pos, pos, format!("\n{}\n", txt.trim_end()), "R5-at", Some(tag));
            }
        } else if !spec.loops.is_empty() || !spec.ats.is_empty() {
            die(&format!("{what}: loop/at on an item without body"));
        }
    }

    // apply
    edits.retain(|e| region.lo <= e.lo && e.hi <= region.hi);
    edits.sort_by(|a, b| a.lo.cmp(&b.lo).then((b.hi - b.lo).cmp(&(a.hi - a.lo))).then(a.seq.cmp(&b.seq)));
    // at equal lo: replacements (longer) first would swallow insertions; put pure insertions first instead
    edits.sort_by(|a, b| {
        a.lo.cmp(&b.lo)
            .then(((a.hi > a.lo) as u8).cmp(&((b.hi > b.lo) as u8)))
            .then((b.hi - b.lo).cmp(&(a.hi - a.lo)))
            .then(a.seq.cmp(&b.seq))
    });
    let mut out = String::new();
    let mut splices: Vec<(String, usize, usize)> = Vec::new();
    let mut log: Vec<Value> = Vec::new();
    if let Some((h, _)) = &frag_wrap {
        out.push_str(h.trim_end());
        out.push('\n');
    }
    let mut cur = region.lo;
    for e in &edits {
        if e.lo < cur {
            // nested inside an already replaced region
            continue;
        }
        out.push_str(&text[cur..e.lo]);
        let l0 = out.matches('\n').count();
        out.push_str(&e.new);
        let l1 = out.matches('\n').count();
        if let Some(t) = &e.tag {
            splices.push((t.clone(), l0, l1));
        }
        if !e.rule.starts_with("R5-") || e.rule == "R5-ret" || e.rule == "R5-forghost" {
            let old = &text[e.lo..e.hi];
            log.push(json!({"rule": e.rule, "src_bytes": [e.lo, e.hi],
                "old": if old.len() > 120 { format!("{}…", &old[..120]) } else { old.to_string() },
                "new": e.new}));
        }
        cur = e.hi;
    }
    out.push_str(&text[cur..region.hi]);
    if let Some((_, t)) = &frag_wrap {
        out.push('\n');
        out.push_str(t.trim_end());
    }
    // blank out lines that became empty because an attribute / doc comment was removed
    let cleaned: Vec<&str> = out.lines().collect();
    let mut res = String::new();
    for l in cleaned {
        res.push_str(l.trim_end());
        res.push('\n');
    }
    (res, log, splices, region.hi - region.lo)
}

fn struct_edits(src: &Src, loc: &Located, spec: &ItemSpec, add: &mut dyn FnMut(usize, usize, String, &str), what: &str) {
    let text = &src.text;
    // find the syn item again by range
    for it in &src.file.items {
        let (generics, fields): (&syn::Generics, Option<&syn::Fields>) = match it {
            syn::Item::Struct(s) if rng(s) == loc.whole => (&s.generics, Some(&s.fields)),
            syn::Item::Enum(e) if rng(e) == loc.whole => (&e.generics, None),
            _ => continue,
        };
        for g in &spec.drop_generics {
            let mut done = false;
            let n = generics.params.len();
            for (i, p) in generics.params.iter().enumerate() {
                if let syn::GenericParam::Type(tp) = p {
                    if tp.ident == g {
                        let r = rng(p);
                        // remove with the preceding comma (or following one if first)
                        if i > 0 {
                            let mut lo = r.lo;
                            while text.as_bytes()[lo - 1] != b',' {
                                lo -= 1;
                            }
                            add(lo - 1, r.hi, String::new(), "R1-drop-generic");
                        } else if n > 1 {
                            let mut hi = r.hi;
                            while text.as_bytes()[hi] != b',' {
                                hi += 1;
                            }
                            add(r.lo, hi + 1, String::new(), "R1-drop-generic");
                        } else {
                            let l = rng(&generics.lt_token.unwrap()).lo;
                            let h = rng(&generics.gt_token.unwrap()).hi;
                            add(l, h, String::new(), "R1-drop-generic");
                        }
                        done = true;
                    }
                }
            }
            if !done {
                die(&format!("{what}: drop-generic: no type parameter `{g}`"));
            }
        }
        if let Some(w) = &generics.where_clause {
            if !spec.drop_generics.is_empty() {
                // a where clause that only constrains dropped parameters goes with them
                let all = w.predicates.iter().all(|p| match p {
                    syn::WherePredicate::Type(pt) => type_last_ident(&pt.bounded_ty).map(|x| spec.drop_generics.contains(&x)).unwrap_or(false),
                    _ => false,
                });
                if !all {
                    die(&format!("{what}: where clause constrains parameters that are kept"));
                }
                let r = rng(w);
                add(r.lo, r.hi, String::new(), "R1-drop-where");
            }
        }
        for (name, new, old) in &spec.retype {
            let mut done = false;
            if let Some(fs) = fields {
                for f in fs.iter() {
                    if f.ident.as_ref().map(|i| i == name).unwrap_or(false) {
                        let r = rng(&f.ty);
                        if norm(&text[r.lo..r.hi]) != norm(old) {
                            die(&format!("{what}: retype {name}: source type is `{}`, expected `{old}`", &text[r.lo..r.hi]));
                        }
                        add(r.lo, r.hi, new.clone(), "R3-retype");
                        done = true;
                    }
                }
            }
            if !done {
                die(&format!("{what}: retype: no field `{name}`"));
            }
        }
        return;
    }
    die(&format!("{what}: struct/enum not re-found"));
}
