//! Executable mirrors of the top-level contracts, run against the REAL `ska` library built from a scratch copy of
//! /repo's working tree.  They only illustrate a failed obligation with a concrete input (or, in the thorough tier,
//! cross-check extraction + spec); they never decide a property.
//!   mirror sweep <kmer|aln|idx|map> <quick|thorough>   -> last stdout line: JSON {evaluated, failing_input}
//!   mirror one   <target> <input-json-string>          -> exit 1 if the input violates the mirrored contract
use ska::ska_dict::bit_encoding::{UInt, RC_IUPAC};
use ska::ska_dict::split_kmer::SplitKmer;
use ska::ska_ref::aln_writer::AlnWriter;
use ska::ska_ref::idx_check::IdxCheck;
use ska::QualFilter;
use std::borrow::Cow;

fn enc(b: u8) -> u8 {
    match b {
        b'A' | b'a' => 0,
        b'C' | b'c' => 1,
        b'T' | b't' => 2,
        _ => 3,
    }
}
fn is_n(b: u8) -> bool {
    b == b'N' || b == b'n'
}

// ---------------------------------------------------------------- kmer: SplitKmer iteration vs. naive enumeration
/// expected (packed split k-mer, middle code, rc flag, middle position) for every window of k acceptable bases
fn naive_kmers(seq: &[u8], qual: Option<&[u8]>, k: usize, rc: bool, minq: u8, qf: QualFilter) -> Vec<(u128, u8, bool, usize, bool)> {
    let h = (k - 1) / 2;
    let mut out = Vec::new();
    if seq.len() < k {
        return out;
    }
    for p in 0..=(seq.len() - k) {
        let ok = (p..p + k).all(|q| {
            !is_n(seq[q]) && (qf != QualFilter::Strict || qual.map(|qs| qs[q] - 33 >= minq).unwrap_or(true))
        });
        if !ok {
            continue;
        }
        let c: Vec<u8> = seq[p..p + k].iter().map(|b| enc(*b)).collect();
        let r: Vec<u8> = c.iter().rev().map(|x| x ^ 2).collect();
        let pack = |w: &[u8]| -> u128 {
            let mut v: u128 = 0;
            for (i, x) in w.iter().enumerate() {
                if i != h {
                    v = (v << 2) | (*x as u128);
                }
            }
            v
        };
        let f = pack(&c);
        let g = pack(&r);
        let palin = rc && f == g;
        if rc && f > g {
            out.push((g, r[h], true, p + h, palin));
        } else {
            out.push((f, c[h], false, p + h, palin));
        }
    }
    out
}

fn real_kmers<IntT: for<'a> UInt<'a>>(seq: &[u8], qual: Option<&[u8]>, k: usize, rc: bool, minq: u8, qf: QualFilter, conv: fn(IntT) -> u128)
    -> Vec<(u128, u8, bool, usize, bool)> {
    let mut out = Vec::new();
    let it = SplitKmer::<IntT>::new(Cow::Borrowed(seq), seq.len(), qual, k, rc, minq, qf, false);
    if let Some(mut it) = it {
        let (km, b, r) = it.get_curr_kmer();
        out.push((conv(km), b, r, it.get_middle_pos(), it.self_palindrome()));
        while let Some((km, b, r)) = it.get_next_kmer() {
            out.push((conv(km), b, r, it.get_middle_pos(), it.self_palindrome()));
        }
    }
    out
}

/// a k-mer equal to its own reverse complement may be reported in either orientation (the property does not fix
/// the tie): normalise such entries before comparing
fn norm_ties(v: Vec<(u128, u8, bool, usize, bool)>) -> Vec<(u128, u8, bool, usize, bool)> {
    v.into_iter().map(|(km, b, r, p, pal)| if pal { (km, b.min(b ^ 2), false, p, pal) } else { (km, b, r, p, pal) }).collect()
}

fn check_kmer(seq: &[u8], qual: Option<&[u8]>, k: usize, rc: bool, minq: u8, qf: QualFilter) -> Option<String> {
    let want = norm_ties(naive_kmers(seq, qual, k, rc, minq, qf));
    let got64 = if k <= 31 { Some(norm_ties(real_kmers::<u64>(seq, qual, k, rc, minq, qf, |x| x as u128))) } else { None };
    let got128 = norm_ties(real_kmers::<u128>(seq, qual, k, rc, minq, qf, |x| x));
    if let Some(g) = got64 {
        if g != want {
            return Some(format!("u64: expected {:?} got {:?}", want, g));
        }
    }
    if got128 != want {
        return Some(format!("u128: expected {:?} got {:?}", want, got128));
    }
    // middle-base quality rule
    if let Some(qs) = qual {
        let it = SplitKmer::<u128>::new(Cow::Borrowed(seq), seq.len(), qual, k, rc, minq, qf, false);
        if let Some(mut it) = it {
            loop {
                let mp = it.get_middle_pos();
                let expect = qf == QualFilter::NoFilter || qs[mp] - 33 >= minq;
                if it.middle_base_qual() != expect {
                    return Some(format!("middle_base_qual at {} expected {}", mp, expect));
                }
                if it.get_next_kmer().is_none() {
                    break;
                }
            }
        }
    }
    None
}

fn qf_name(q: QualFilter) -> &'static str {
    match q {
        QualFilter::NoFilter => "none",
        QualFilter::Middle => "middle",
        QualFilter::Strict => "strict",
    }
}
fn qf_parse(s: &str) -> QualFilter {
    match s {
        "middle" => QualFilter::Middle,
        "strict" => QualFilter::Strict,
        _ => QualFilter::NoFilter,
    }
}

fn kmer_input_json(seq: &[u8], qual: Option<&[u8]>, k: usize, rc: bool, minq: u8, qf: QualFilter) -> String {
    format!(
        "{{\"seq\":\"{}\",\"qual\":{},\"k\":{},\"rc\":{},\"min_qual\":{},\"qual_filter\":\"{}\"}}",
        String::from_utf8_lossy(seq),
        match qual {
            Some(q) => format!("\"{}\"", String::from_utf8_lossy(q)),
            None => "null".to_string(),
        },
        k,
        rc,
        minq,
        qf_name(qf)
    )
}

fn sweep_kmer(thorough: bool) -> (u64, Option<(String, String)>) {
    let alpha = [b'A', b'C', b'G', b'T', b'N'];
    let mut n = 0u64;
    let ks: &[usize] = if thorough { &[5, 7] } else { &[5] };
    for &k in ks {
        let maxlen = if thorough { k + 3 } else { k + 2 };
        for len in 0..=maxlen {
            let total = 5usize.pow(len as u32);
            let stride = if !thorough && total > 20000 { total / 20000 } else { 1 };
            let mut idx = 0usize;
            while idx < total {
                let mut s = Vec::with_capacity(len);
                let mut x = idx;
                for _ in 0..len {
                    s.push(alpha[x % 5]);
                    x /= 5;
                }
                if idx % 7 == 3 && len > 0 {
                    s[0] = s[0].to_ascii_lowercase();
                }
                for rc in [false, true] {
                    n += 1;
                    if let Some(m) = check_kmer(&s, None, k, rc, 0, QualFilter::NoFilter) {
                        return (n, Some((kmer_input_json(&s, None, k, rc, 0, QualFilter::NoFilter), m)));
                    }
                }
                idx += stride;
            }
        }
        // quality strings that hit the threshold exactly: min_qual 20, qualities 19 / 20 / 21
        let quals = [b'4', b'5', b'6'];
        let base = b"ACGTTGCAAC";
        let len = k + 2;
        let total = 3usize.pow(len as u32);
        let stride = if !thorough && total > 3000 { total / 3000 } else { 1 };
        let mut idx = 0usize;
        while idx < total {
            let mut q = Vec::with_capacity(len);
            let mut x = idx;
            for _ in 0..len {
                q.push(quals[x % 3]);
                x /= 3;
            }
            let s: Vec<u8> = (0..len).map(|i| base[i % base.len()]).collect();
            for qf in [QualFilter::NoFilter, QualFilter::Middle, QualFilter::Strict] {
                n += 1;
                if let Some(m) = check_kmer(&s, Some(&q), k, true, 20, qf) {
                    return (n, Some((kmer_input_json(&s, Some(&q), k, true, 20, qf), m)));
                }
            }
            idx += stride;
        }
    }
    // larger k at the width boundary, structured sequences incl. a window ending at the record end
    for &k in &[31usize, 33, 63] {
        let unit = b"ACGTTGCATGCAAGCTTAGGCTAACCGGTTAACGTAGCTAGGATCCATCGGATTACAGCATCGATCGGCTA";
        for extra in 0..3usize {
            let mut s: Vec<u8> = (0..k + extra).map(|i| unit[i % unit.len()]).collect();
            for npos in [None, Some(0usize), Some(k / 2), Some(k - 1)] {
                let mut t = s.clone();
                if let Some(p) = npos {
                    if p < t.len() {
                        t[p] = b'N';
                    }
                }
                for rc in [false, true] {
                    n += 1;
                    if let Some(m) = check_kmer(&t, None, k, rc, 0, QualFilter::NoFilter) {
                        return (n, Some((kmer_input_json(&t, None, k, rc, 0, QualFilter::NoFilter), m)));
                    }
                }
            }
            s.reverse();
        }
    }
    (n, None)
}

// ---------------------------------------------------------------- aln: AlnWriter vs. the property's description
fn is_ambig(b: u8) -> bool {
    !matches!(b | 0x20, b'a' | b'c' | b'g' | b't' | b'u' | b'-')
}

fn expect_aln(refs: &[Vec<u8>], k: usize, calls: &[(usize, usize, u8)], repeats: &[usize], mask_ambig: bool) -> Vec<u8> {
    let h = (k - 1) / 2;
    let total: usize = refs.iter().map(|r| r.len()).sum();
    let mut out = vec![b'-'; total];
    let mut off = vec![0usize; refs.len() + 1];
    for c in 0..refs.len() {
        off[c + 1] = off[c] + refs[c].len();
    }
    for &(chrom, pos, _) in calls {
        for p in pos - h..=pos + h {
            out[off[chrom] + p] = refs[chrom][p].to_ascii_uppercase();
        }
    }
    for &(chrom, pos, base) in calls {
        out[off[chrom] + pos] = if mask_ambig && is_ambig(base) { b'N' } else { base };
    }
    for &r in repeats {
        if out[r] != b'-' {
            out[r] = b'N';
        }
    }
    out
}

fn run_aln(refs: &Vec<Vec<u8>>, k: usize, calls: &[(usize, usize, u8)], repeats: &Vec<usize>, mask_ambig: bool) -> Option<String> {
    let want = expect_aln(refs, k, calls, repeats, mask_ambig);
    let mut w = AlnWriter::new(refs, k, repeats, mask_ambig);
    for &(c, p, b) in calls {
        w.write_split_kmer(p, c, b);
    }
    let got = w.get_seq().to_vec();
    if got != want {
        Some(format!("expected {} got {}", String::from_utf8_lossy(&want), String::from_utf8_lossy(&got)))
    } else {
        None
    }
}

fn aln_json(refs: &Vec<Vec<u8>>, k: usize, calls: &[(usize, usize, u8)], repeats: &Vec<usize>, mask_ambig: bool) -> String {
    let r: Vec<String> = refs.iter().map(|x| format!("\"{}\"", String::from_utf8_lossy(x))).collect();
    let c: Vec<String> = calls.iter().map(|(a, b, d)| format!("[{},{},{}]", a, b, d)).collect();
    let rp: Vec<String> = repeats.iter().map(|x| x.to_string()).collect();
    format!("{{\"refs\":[{}],\"k\":{},\"calls\":[{}],\"repeats\":[{}],\"mask_ambig\":{}}}", r.join(","), k, c.join(","), rp.join(","), mask_ambig)
}

fn sweep_aln(thorough: bool) -> (u64, Option<(String, String)>) {
    let mut n = 0u64;
    // (k, contig lengths)
    let shapes: Vec<(usize, Vec<usize>)> = if thorough {
        vec![(5, vec![9]), (5, vec![12]), (5, vec![5, 7]), (5, vec![7, 3, 6]), (5, vec![6, 6]), (5, vec![2, 8]), (5, vec![8, 2, 5]),
             (5, vec![9, 9]), (5, vec![5, 5, 5, 5]), (5, vec![7, 2, 9]), (7, vec![11]), (7, vec![9, 8]), (7, vec![7, 4, 10])]
    } else {
        vec![(5, vec![8]), (5, vec![6, 3, 6]), (7, vec![10])]
    };
    let letters = b"acgtACGTTGCAacgtnACGT";
    for (k, shape) in shapes {
        let h = (k - 1) / 2;
        let mut refs: Vec<Vec<u8>> = Vec::new();
        let mut t = 0;
        for l in &shape {
            refs.push((0..*l).map(|i| { t += 1; letters[(t + i) % letters.len()].to_ascii_uppercase() }).collect());
        }
        let mut slots: Vec<(usize, usize)> = Vec::new();
        for (c, r) in refs.iter().enumerate() {
            if r.len() >= k {
                for p in h..r.len() - h {
                    slots.push((c, p));
                }
            }
        }
        let total: usize = shape.iter().sum();
        let m = slots.len();
        for mask in 0u32..(1u32 << m) {
            let bases = [b'A', b'R', b'T', b'-'];
            let mut calls: Vec<(usize, usize, u8)> = Vec::new();
            for (i, s) in slots.iter().enumerate() {
                if mask & (1 << i) != 0 {
                    calls.push((s.0, s.1, bases[(i + mask as usize) % 3]));
                }
            }
            for mask_ambig in [false, true] {
                for reps in [vec![], vec![0usize, total - 1], (0..total).step_by(2).collect::<Vec<_>>()] {
                    n += 1;
                    if let Some(msg) = run_aln(&refs, k, &calls, &reps, mask_ambig) {
                        return (n, Some((aln_json(&refs, k, &calls, &reps, mask_ambig), msg)));
                    }
                }
            }
        }
    }
    (n, None)
}

// ---------------------------------------------------------------- idx: IdxCheck vs. offsets
fn run_idx(lens: &[usize]) -> Option<String> {
    let refs: Vec<Vec<u8>> = lens.iter().map(|l| vec![b'A'; *l]).collect();
    let ic = IdxCheck::new(&refs);
    let mut want = Vec::new();
    for (c, l) in lens.iter().enumerate() {
        for p in 0..*l {
            want.push((c, p));
        }
    }
    let got: Vec<(usize, usize)> = ic.iter().take(want.len() + 3).collect();
    if got != want {
        Some(format!("expected {:?} got {:?}", want, got))
    } else {
        None
    }
}

fn sweep_idx(thorough: bool) -> (u64, Option<(String, String)>) {
    let mut n = 0;
    let maxl = if thorough { 5 } else { 3 };
    for a in 1..=maxl {
        n += 1;
        if let Some(m) = run_idx(&[a]) {
            return (n, Some((format!("{{\"lens\":[{}]}}", a), m)));
        }
        for b in 1..=maxl {
            n += 1;
            if let Some(m) = run_idx(&[a, b]) {
                return (n, Some((format!("{{\"lens\":[{},{}]}}", a, b), m)));
            }
            for c in 1..=maxl {
                n += 1;
                if let Some(m) = run_idx(&[a, b, c]) {
                    return (n, Some((format!("{{\"lens\":[{},{},{}]}}", a, b, c), m)));
                }
            }
        }
    }
    (n, None)
}

// ---------------------------------------------------------------- tables used by map: RC_IUPAC involution sanity
fn sweep_tables() -> (u64, Option<(String, String)>) {
    let mut n = 0;
    for b in b"ACGTRYSWKMBDHVN-" {
        n += 1;
        let r = RC_IUPAC[*b as usize];
        if RC_IUPAC[r as usize] != *b {
            return (n, Some((format!("{{\"byte\":{}}}", b), "RC_IUPAC not an involution".to_string())));
        }
    }
    (n, None)
}

// ---------------------------------------------------------------- tiny JSON field helpers (inputs are produced by this program)
fn jstr(s: &str, key: &str) -> Option<String> {
    let pat = format!("\"{}\":\"", key);
    let i = s.find(&pat)? + pat.len();
    let j = s[i..].find('"')? + i;
    Some(s[i..j].to_string())
}
fn jraw(s: &str, key: &str) -> Option<String> {
    let pat = format!("\"{}\":", key);
    let i = s.find(&pat)? + pat.len();
    let rest = &s[i..];
    let mut depth = 0i32;
    for (n, ch) in rest.char_indices() {
        match ch {
            '[' | '{' => depth += 1,
            ']' | '}' => {
                if depth == 0 {
                    return Some(rest[..n].to_string());
                }
                depth -= 1;
            }
            ',' if depth == 0 => return Some(rest[..n].to_string()),
            _ => {}
        }
    }
    Some(rest.to_string())
}
fn nums(s: &str) -> Vec<usize> {
    s.split(|c: char| !c.is_ascii_digit()).filter(|x| !x.is_empty()).map(|x| x.parse().unwrap()).collect()
}

fn one(target: &str, input: &str) -> Option<String> {
    match target {
        "kmer" => {
            let seq = jstr(input, "seq").unwrap_or_default();
            let qual = jstr(input, "qual");
            let k = nums(&jraw(input, "k").unwrap())[0];
            let rc = jraw(input, "rc").unwrap().trim() == "true";
            let minq = nums(&jraw(input, "min_qual").unwrap())[0] as u8;
            let qf = qf_parse(&jstr(input, "qual_filter").unwrap_or_default());
            check_kmer(seq.as_bytes(), qual.as_ref().map(|q| q.as_bytes()), k, rc, minq, qf)
        }
        "aln" => {
            let refs_raw = jraw(input, "refs").unwrap();
            let refs: Vec<Vec<u8>> = refs_raw.split('"').enumerate().filter(|(i, _)| i % 2 == 1).map(|(_, s)| s.as_bytes().to_vec()).collect();
            let k = nums(&jraw(input, "k").unwrap())[0];
            let cn = nums(&jraw(input, "calls").unwrap());
            let calls: Vec<(usize, usize, u8)> = cn.chunks(3).map(|c| (c[0], c[1], c[2] as u8)).collect();
            let reps = nums(&jraw(input, "repeats").unwrap());
            let ma = jraw(input, "mask_ambig").unwrap().trim() == "true";
            run_aln(&refs, k, &calls, &reps, ma)
        }
        "idx" => run_idx(&nums(&jraw(input, "lens").unwrap())),
        _ => None,
    }
}

fn main() {
    let a: Vec<String> = std::env::args().collect();
    if a.len() >= 4 && a[1] == "sweep" {
        let thorough = a[3] == "thorough";
        let (n, f) = match a[2].as_str() {
            "kmer" => sweep_kmer(thorough),
            "aln" => sweep_aln(thorough),
            "idx" => sweep_idx(thorough),
            "tables" => sweep_tables(),
            _ => (0, None),
        };
        match f {
            Some((inp, msg)) => {
                println!("{{\"evaluated\":{},\"failing_input\":{},\"observed\":\"{}\"}}", n, inp, msg.replace('"', "'").replace('\\', "/"));
                std::process::exit(1);
            }
            None => println!("{{\"evaluated\":{},\"failing_input\":null}}", n),
        }
    } else if a.len() >= 4 && a[1] == "one" {
        match one(&a[2], &a[3]) {
            Some(m) => {
                println!("input violates the mirrored contract on the real code: {}", m);
                std::process::exit(1);
            }
            None => println!("input satisfies the mirrored contract"),
        }
    } else {
        eprintln!("usage: mirror sweep <kmer|aln|idx|tables> <quick|thorough> | mirror one <target> <json>");
        std::process::exit(2);
    }
}
