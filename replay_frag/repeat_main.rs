//! Native sweep of the repeat-coordinate loop of RefSka::new, lifted verbatim by vx (specs/repeatfrag_k.vx) into the
//! library this binary links.  Like the other mirrors it never decides a pass: it only supplies a concrete failing
//! input when an obligation of `RefSka::new.repeat_coords` failed (or the function was restructured).
//!   repeat_mirror sweep            -> last stdout line: JSON {evaluated, failing_input}
//!   repeat_mirror one <json>       -> exit 1 if the input violates the contract
use fragmirror::*;

fn run(lens: &[usize], k: usize, repeated: u64) -> Option<String> {
    let h = (k - 1) / 2;
    let seq: Vec<Vec<u8>> = lens.iter().map(|l| vec![b'A'; *l]).collect();
    let mut sks: Vec<RefKmer> = Vec::new();
    let mut centres: Vec<usize> = Vec::new();
    let mut off = 0;
    for (c, l) in lens.iter().enumerate() {
        if *l >= k {
            for p in h..(*l - h) {
                sks.push(RefKmer { kmer: sks.len() as u64, base: 0, pos: p, chrom: c, rc: false });
                centres.push(off + p);
            }
        }
        off += *l;
    }
    let total = off;
    let reps: Vec<u64> = (0..sks.len() as u64).filter(|i| repeated & (1 << i) != 0).collect();
    let mut want = vec![false; total];
    for (i, c) in centres.iter().enumerate() {
        if repeated & (1 << i) != 0 {
            for a in (*c - h)..=(*c + h) {
                want[a] = true;
            }
        }
    }
    let got = std::panic::catch_unwind(|| repeat_coords(sks, seq, HashSet { v: reps }, h));
    let got = match got {
        Ok(g) => g,
        Err(_) => return Some("panicked".to_string()),
    };
    let mut marks = vec![false; total];
    for g in &got {
        if *g >= total {
            return Some(format!("coordinate {} outside the reference (length {})", g, total));
        }
        marks[*g] = true;
    }
    if marks != want {
        let f = |v: &Vec<bool>| v.iter().map(|b| if *b { 'N' } else { '.' }).collect::<String>();
        return Some(format!("expected mask {} got {}", f(&want), f(&marks)));
    }
    None
}

fn nums(s: &str) -> Vec<u64> {
    s.split(|c: char| !c.is_ascii_digit()).filter(|x| !x.is_empty()).map(|x| x.parse().unwrap()).collect()
}

fn main() {
    std::panic::set_hook(Box::new(|_| {}));
    let a: Vec<String> = std::env::args().collect();
    if a.len() >= 2 && a[1] == "sweep" {
        let k = 5usize;
        let mut n = 0u64;
        let shapes: Vec<Vec<usize>> = vec![
            vec![7], vec![9], vec![6, 6], vec![7, 2, 8], vec![5, 4, 7], vec![2, 7, 3, 6], vec![6, 1, 1, 6], vec![8, 5], vec![3, 8], vec![5, 5, 5],
        ];
        for lens in shapes {
            let nk: usize = lens.iter().filter(|l| **l >= k).map(|l| l - 4).sum();
            for repeated in 0u64..(1u64 << nk) {
                n += 1;
                if let Some(msg) = run(&lens, k, repeated) {
                    let l: Vec<String> = lens.iter().map(|x| x.to_string()).collect();
                    println!("{{\"evaluated\":{},\"failing_input\":{{\"lens\":[{}],\"k\":{},\"repeated\":{}}},\"observed\":\"{}\"}}", n, l.join(","), k, repeated, msg);
                    std::process::exit(1);
                }
            }
        }
        println!("{{\"evaluated\":{},\"failing_input\":null}}", n);
    } else if a.len() >= 3 && a[1] == "one" {
        let inp = &a[2];
        let i = inp.find("\"lens\":[").unwrap() + 8;
        let j = inp[i..].find(']').unwrap() + i;
        let lens: Vec<usize> = nums(&inp[i..j]).iter().map(|x| *x as usize).collect();
        let k = nums(&inp[inp.find("\"k\":").unwrap()..])[0] as usize;
        let rep = nums(&inp[inp.find("\"repeated\":").unwrap()..])[0];
        match run(&lens, k, rep) {
            Some(m) => {
                println!("input violates the mirrored contract on the real code: {}", m);
                std::process::exit(1);
            }
            None => println!("input satisfies the mirrored contract"),
        }
    } else {
        eprintln!("usage: repeat_mirror sweep | one <json>");
        std::process::exit(2);
    }
}
