// Kani harness on the real `generic_modes::merge` (the wrapper between the CLI and MergeSkaDict::extend / save_skf) with
// its four callees replaced by stubs (file I/O, hashbrown, ndarray).  Contract (C07):
//   * the first array is converted, then every further file is loaded IN ARGUMENT ORDER, converted, and joined with
//     `extend(merged, next)` — merged on the left, so its samples stay in front — once each;
//   * the result is written exactly once, to `output`, AFTER the last extend: a refusal (panic) inside any extend
//     therefore leaves no output file behind.
// Arrays and dictionaries are recognised by a marker stored in their k field: the first array is 1, load("b") gives
// 2, load("c") 3; the extend stub appends the right operand's marker as a decimal digit to the left operand's, so
// the dictionary handed to save_skf spells the whole history: 1 -> 12 -> 123.
// (The history is kept in the values, not in a static event log: with Kani 0.68 a write to a static in a stub that
//  runs before `MergeSkaArray::load(..).expect(..)` made the drop glue of the returned array fail spuriously.)
// Attached to src/merge_ska_dict.rs (private field k of MergeSkaDict); one and two further input files.
use super::*;
use crate::merge_ska_array::verif_kani_mergehelp::{load_stub, marked_array, marker};
use crate::merge_ska_array::MergeSkaArray;

static mut SAVE_CALLS: u32 = 0;
static mut SAVED_MARK: usize = 0;
static mut SAVED_NAME_OK: bool = false;

fn to_dict_stub<IntT: for<'a> UInt<'a>>(s: &MergeSkaArray<IntT>) -> MergeSkaDict<IntT> {
    MergeSkaDict::new(marker(s), 0, true)
}

fn extend_stub<'a, IntT: for<'b> UInt<'b>>(s: &'a mut MergeSkaDict<IntT>, other: &'a mut MergeSkaDict<IntT>) {
    s.k = s.k * 10 + other.k;
}

fn save_stub<IntT: for<'a> UInt<'a>>(d: &MergeSkaDict<IntT>, out_file: &str) {
    let b = out_file.as_bytes();
    unsafe {
        SAVE_CALLS += 1;
        SAVED_MARK = d.k;
        SAVED_NAME_OK = b.len() == 1 && b[0] == b'o';
    }
}

fn wrapper_case(nfiles: usize) {
    let first = marked_array::<u64>(1);
    let mut files: Vec<String> = Vec::new();
    if nfiles >= 1 {
        files.push(String::from("b"));
    }
    if nfiles >= 2 {
        files.push(String::from("c"));
    }
    crate::generic_modes::merge(&first, &files, "o");
    unsafe {
        assert!(SAVE_CALLS == 1);
        assert!(SAVED_NAME_OK);
        assert!(SAVED_MARK == if nfiles == 2 { 123 } else if nfiles == 1 { 12 } else { 1 });
    }
    kani::cover!(true, "end of harness reached");
}

#[kani::proof]
#[kani::unwind(6)]
#[kani::stub(MergeSkaArray::load, load_stub)]
#[kani::stub(MergeSkaArray::to_dict, to_dict_stub)]
#[kani::stub(MergeSkaDict::extend, extend_stub)]
#[kani::stub(crate::generic_modes::save_skf, save_stub)]
fn merge_wrapper_two_more_files() {
    wrapper_case(2);
}

#[kani::proof]
#[kani::unwind(6)]
#[kani::stub(MergeSkaArray::load, load_stub)]
#[kani::stub(MergeSkaArray::to_dict, to_dict_stub)]
#[kani::stub(MergeSkaDict::extend, extend_stub)]
#[kani::stub(crate::generic_modes::save_skf, save_stub)]
fn merge_wrapper_one_more_file() {
    wrapper_case(1);
}

// A further input that cannot be loaded (wrong integer width for its k, damaged file) must stop the merge before
// anything is written.  On the unchanged tree this harness FAILS, and only with the panic of `.expect("Failed to load
// input file ...")` inside merge (check `std::result::unwrap_failed.assertion`; Kani does not keep the formatted
// message): the driver accepts exactly that outcome (KANI_GROUPS[..]["expect_fail_only"]) and reports a pass, or a
// failure of any other check, as a violation.
#[kani::proof]
#[kani::unwind(6)]
#[kani::stub(MergeSkaArray::load, load_stub)]
#[kani::stub(MergeSkaArray::to_dict, to_dict_stub)]
#[kani::stub(MergeSkaDict::extend, extend_stub)]
#[kani::stub(crate::generic_modes::save_skf, save_stub)]
fn merge_wrapper_refuses_unloadable_file() {
    let first = marked_array::<u64>(1);
    let files: Vec<String> = vec![String::from("b"), String::from("x")];
    crate::generic_modes::merge(&first, &files, "o");
    assert!(false, "merge returned although an input file could not be loaded");
}
