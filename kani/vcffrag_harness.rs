// Kani harness on the genotype decision of RefSka::write_vcf for one sample character, lifted verbatim by vx
// (specs/vcffrag_k.vx) and compiled inside the real crate (real noodles `Base`, real `u8_to_base`).
// Contract (C05), for every sample byte, every reference byte and every ALT list built so far (0..=2 alleles):
//   * "0" exactly when the sample character equals the reference byte — and then nothing else changes;
//   * "." for '-' ; otherwise the 1-based index of the character's allele (A/C/G/T, anything else N) in ALT,
//     appended if it was not listed yet; in both of these cases the column is marked as variant;
//   * ALT never loses or reorders alleles.
// `usize::to_string` is core::fmt machinery; the indices here are 1..=3.
use super::*;

include!(concat!(env!("CARGO_MANIFEST_DIR"), "/src/verif_frag_vcffrag.rs"));

fn any_allele() -> Base {
    let c: u8 = kani::any();
    kani::assume(c < 5);
    match c {
        0 => Base::A,
        1 => Base::C,
        2 => Base::G,
        3 => Base::T,
        _ => Base::N,
    }
}

#[kani::proof]
#[kani::unwind(5)]
fn vcf_genotype_of_one_character() {
    let mapped: u8 = kani::any();
    let ref_base: u8 = kani::any();
    let ref_allele = u8_to_base(ref_base);
    let variant_in: bool = kani::any();
    let n: usize = kani::any();
    kani::assume(n <= 2);
    let a0 = any_allele();
    let a1 = any_allele();
    kani::assume(a0 != a1);
    let mut alt_in: Vec<Base> = Vec::new();
    if n >= 1 {
        alt_in.push(a0);
    }
    if n >= 2 {
        alt_in.push(a1);
    }
    let (gt, variant, alts) = gt_chain(&mapped, ref_base, ref_allele, variant_in, alt_in);
    let g = gt.as_bytes();
    if mapped == ref_base {
        assert!(g.len() == 1 && g[0] == b'0');
        assert!(variant == variant_in);
        assert!(alts.len() == n);
    } else if mapped == b'-' {
        assert!(g.len() == 1 && g[0] == b'.');
        assert!(variant);
        assert!(alts.len() == n);
    } else {
        assert!(variant);
        let want = u8_to_base(mapped);
        // position of the allele in the old list, or appended at the end
        let idx = if n >= 1 && a0 == want {
            0
        } else if n >= 2 && a1 == want {
            1
        } else {
            n
        };
        assert!(alts.len() == if idx == n { n + 1 } else { n });
        assert!(alts[idx] == want);
        assert!(g.len() == 1 && g[0] == b'1' + idx as u8);
    }
    if n >= 1 {
        assert!(alts[0] == a0);
    }
    if n >= 2 {
        assert!(alts[1] == a1);
    }
    kani::cover!(mapped != ref_base && mapped != b'-' && n == 2);
    kani::cover!(mapped == ref_base);
}
