// Kani checks for `ska cov` (coverage.rs), attached to src/coverage.rs.  Four fragments lifted verbatim by vx
// (specs/cov_k.vx) and compiled inside the real crate, plus find_cutoff in place with a() and b() stubbed.  Serves C20.
//   count_record_*                     (BOUNDED: three concrete reads of 7 bases — one k-mer three times, three different
//                                      k-mers, first == third —, k = 5, symbolic strand mode and quality bytes; symbolic
//                                      bases exhaust CBMC's memory) every window of the read adds exactly one to the
//                                      count of its split k-mer — the k-mers being those SplitKmer yields for the
//                                      struct's own k and strand mode with NO quality filtering — nothing else is counted
//   hist_step_adds_one_at_count        (complete: every count 1..=u32::MAX, full 1000-bin table) a k-mer seen c times
//                                      adds one to bin c-1 when c <= MAX_COUNT, changes nothing otherwise
//   truncate_cuts_after_last_frequent  (BOUNDED: tables of length 4) the table is cut after the last multiplicity shared
//                                      by at least MIN_FREQ k-mers; earlier bins keep their values and order
//   label_error_below_cutoff           (complete) "Error" exactly for counts below the cutoff, "Coverage" otherwise
//   find_cutoff_first_negative_root    (BOUNDED: max_cutoff <= 4; a() and b() replaced by arbitrary tables) the result
//                                      is the smallest count c >= 1 with a(c) - b(c) < 0, capped at max_cutoff
//                                      (and 1 when max_cutoff <= 1)
use super::*;
use std::borrow::Cow;

/// R3 stand-in for hashbrown::HashMap (Kani does not terminate on a hashbrown insert): association list
pub struct HashMap<K, V> {
    v: Vec<(K, V)>,
}
pub struct Entry<'a, K, V> {
    map: &'a mut Vec<(K, V)>,
    found: bool,
    idx: usize,
    key: K,
}
impl<K: PartialEq + Copy, V> HashMap<K, V> {
    pub fn entry(&mut self, k: K) -> Entry<'_, K, V> {
        let mut i = 0;
        while i < self.v.len() {
            if self.v[i].0 == k {
                return Entry { map: &mut self.v, found: true, idx: i, key: k };
            }
            i += 1;
        }
        Entry { map: &mut self.v, found: false, idx: 0, key: k }
    }
    fn count_of(&self, k: K) -> Option<&V> {
        let mut i = 0;
        while i < self.v.len() {
            if self.v[i].0 == k {
                return Some(&self.v[i].1);
            }
            i += 1;
        }
        None
    }
}
impl<'a, K: Copy, V> Entry<'a, K, V> {
    pub fn and_modify<F: FnOnce(&mut V)>(self, f: F) -> Self {
        if self.found {
            f(&mut self.map[self.idx].1);
        }
        self
    }
    pub fn or_insert(self, val: V) -> &'a mut V {
        let mut idx = self.idx;
        if !self.found {
            self.map.push((self.key, val));
            idx = self.map.len() - 1;
        }
        &mut self.map[idx].1
    }
}

/// the part of CoverageHistogram that the record loop of new() touches
struct CovShim<IntT> {
    k: usize,
    rc: bool,
    kmer_dict: HashMap<IntT, u32>,
}

/// stand-in for a needletail record
struct SeqRecShim {
    seq: [u8; 7],
    qual: [u8; 7],
}
impl SeqRecShim {
    fn seq(&self) -> Cow<'_, [u8]> {
        Cow::Borrowed(&self.seq[..])
    }
    fn num_bases(&self) -> usize {
        7
    }
    fn qual(&self) -> Option<&[u8]> {
        Some(&self.qual[..])
    }
}

include!(concat!(env!("CARGO_MANIFEST_DIR"), "/src/verif_frag_covfrag.rs"));

fn count_case(seq: [u8; 7], distinct_want: usize) {
    let rec = SeqRecShim { seq, qual: kani::any() };
    let rc: bool = kani::any();
    // the dictionary already holds one k-mer (possibly one of this read's) from earlier records
    let pre_key: u64 = kani::any();
    let pre_cnt: u32 = kani::any();
    kani::assume(pre_cnt >= 1 && pre_cnt <= 1000);
    let mut v0 = Vec::with_capacity(5);
    v0.push((pre_key, pre_cnt));
    let mut cov = CovShim::<u64> { k: 5, rc, kmer_dict: HashMap { v: v0 } };

    count_record(&mut cov, &rec);

    // the three windows of the read, as SplitKmer yields them for k = 5, this strand mode and no quality filter
    let mut it = SplitKmer::<u64>::new(Cow::Borrowed(&rec.seq[..]), 7, None, 5, rc, 0, QualFilter::NoFilter, false).unwrap();
    let w0 = it.get_curr_kmer().0;
    let w1 = it.get_next_kmer().unwrap().0;
    let w2 = it.get_next_kmer().unwrap().0;
    assert!(it.get_next_kmer().is_none());
    let probe: u64 = kani::any();
    let want = (probe == w0) as u32 + (probe == w1) as u32 + (probe == w2) as u32 + if probe == pre_key { pre_cnt } else { 0 };
    match cov.kmer_dict.count_of(probe) {
        None => assert!(want == 0),
        Some(c) => assert!(*c == want && want > 0),
    }
    let distinct = 1 + (w1 != w0) as usize + (w2 != w0 && w2 != w1) as usize;
    let pre_is_new = pre_key != w0 && pre_key != w1 && pre_key != w2;
    assert!(cov.kmer_dict.v.len() == distinct + pre_is_new as usize);
    kani::cover!(pre_key == w0);
    kani::cover!(pre_is_new);
    // single-stranded, the three reads have 1, 3 and 2 distinct split k-mers (guards the choice of reads)
    assert!(rc || distinct == distinct_want);
    kani::cover!(rc);
    kani::cover!(!rc);
}

// the same split k-mer three times
#[kani::proof]
#[kani::unwind(9)]
fn count_record_repeated_kmer() {
    count_case(*b"AAAAAAA", 1);
}

// three different split k-mers
#[kani::proof]
#[kani::unwind(9)]
fn count_record_distinct_kmers() {
    count_case(*b"ACGTTGA", 3);
}

// first and third window share their split k-mer
#[kani::proof]
#[kani::unwind(9)]
fn count_record_first_and_third_equal() {
    count_case(*b"ACACACA", 2);
}

fn hist(counts: Vec<u32>, cutoff: usize) -> CoverageHistogram<u64> {
    CoverageHistogram::<u64> { k: 31, rc: true, kmer_dict: hashbrown::HashMap::default(), counts, w0: 0.8, c: 20.0, cutoff, verbose: false, fitted: false }
}

#[kani::proof]
#[kani::unwind(3)]
fn hist_step_adds_one_at_count() {
    let mut table = vec![0u32; MAX_COUNT];
    let j: usize = kani::any();
    kani::assume(j < MAX_COUNT);
    let old: u32 = kani::any();
    kani::assume(old < u32::MAX);
    table[j] = old;
    let mut h = hist(table, 0);
    let c: u32 = kani::any();
    kani::assume(c >= 1);
    hist_step(&mut h, &c);
    assert!(h.counts.len() == MAX_COUNT);
    let probe: usize = kani::any();
    kani::assume(probe < MAX_COUNT);
    let before = if probe == j { old } else { 0 };
    let hit = (c as usize) <= MAX_COUNT && probe == c as usize - 1;
    assert!(h.counts[probe] == before + hit as u32);
    kani::cover!(c as usize == MAX_COUNT && probe == MAX_COUNT - 1);
    kani::cover!(c as usize == MAX_COUNT + 1);
}

#[kani::proof]
#[kani::unwind(7)]
fn truncate_cuts_after_last_frequent() {
    let cells: [u32; 4] = kani::any();
    let mut h = hist(vec![cells[0], cells[1], cells[2], cells[3]], 0);
    truncate_counts(&mut h);
    // index after the last bin with at least MIN_FREQ k-mers (0 if there is none)
    let mut keep = 0;
    let mut i = 0;
    while i < 4 {
        if cells[i] >= MIN_FREQ {
            keep = i + 1;
        }
        i += 1;
    }
    assert!(h.counts.len() == keep);
    let mut i = 0;
    while i < keep {
        assert!(h.counts[i] == cells[i]);
        i += 1;
    }
    kani::cover!(keep == 0);
    kani::cover!(keep == 2 && cells[0] < MIN_FREQ);
    kani::cover!(keep == 4);
}

#[kani::proof]
#[kani::unwind(10)]
fn label_error_below_cutoff() {
    let cutoff: usize = kani::any();
    let idx: usize = kani::any();
    kani::assume(idx < usize::MAX);
    let h = hist(Vec::new(), cutoff);
    let l = label(&h, idx);
    let b = l.as_bytes();
    let is_error = b.len() == 5 && b[0] == b'E' && b[1] == b'r' && b[2] == b'r' && b[3] == b'o' && b[4] == b'r';
    let is_cov = b.len() == 8 && b[0] == b'C' && b[1] == b'o' && b[2] == b'v' && b[7] == b'e';
    // row idx of the table is count idx + 1
    assert!(is_error == (idx + 1 < cutoff));
    assert!(is_cov == !(idx + 1 < cutoff));
}

// ---- find_cutoff with the two mixture components replaced by arbitrary functions of the count
static mut TA: [f64; 5] = [0.0; 5];
static mut TB: [f64; 5] = [0.0; 5];

fn a_stub(_w0: f64, i: f64) -> f64 {
    unsafe { TA[i as usize] }
}
fn b_stub(_w0: f64, _c: f64, i: f64) -> f64 {
    unsafe { TB[i as usize] }
}

#[kani::proof]
#[kani::unwind(7)]
#[kani::stub(a, a_stub)]
#[kani::stub(b, b_stub)]
fn find_cutoff_first_negative_root() {
    let ta: [f64; 5] = kani::any();
    let tb: [f64; 5] = kani::any();
    // log-densities: finite (inf - inf would be NaN, which Kani rejects as an arithmetic fault in find_cutoff itself)
    let mut i = 0;
    while i < 5 {
        kani::assume(ta[i].is_finite() && tb[i].is_finite());
        i += 1;
    }
    unsafe {
        TA = ta;
        TB = tb;
    }
    let max_cutoff: usize = kani::any();
    kani::assume(max_cutoff <= 4);
    let pars = [0.8f64, 20.0f64];
    let got = find_cutoff(&pars, max_cutoff);
    // smallest c in 1..max_cutoff with a(c) - b(c) < 0; otherwise the cap (at least 1)
    let mut want = if max_cutoff > 1 { max_cutoff } else { 1 };
    let mut c = max_cutoff;
    while c > 1 {
        c -= 1;
        if ta[c] - tb[c] < 0.0 {
            want = c;
        }
    }
    assert!(got == want);
    kani::cover!(got == 1 && max_cutoff == 4);
    kani::cover!(got == 3 && max_cutoff == 4);
    kani::cover!(got == 4);
}

// ---- grad_ll: whatever magnitude exp() takes — any value in [0, +inf], the range of the real function on the extended
// reals — no term of the gradient is NaN for parameters inside the open domain.  (Says nothing about the VALUE of the
// gradient, which needs ln / exp / lgamma and is not decided; added after the independent seeded change C20b rewrote the
// two responsibilities as ratio / (1 + ratio), which is inf / inf once exp overflows at multiplicities of ~200.)
fn exp_stub(_x: f64) -> f64 {
    let r: f64 = kani::any();
    kani::assume(r >= 0.0);
    r
}

#[kani::proof]
#[kani::unwind(7)]
#[kani::stub(a, a_stub)]
#[kani::stub(b, b_stub)]
#[kani::stub(f64::exp, exp_stub)]
fn grad_ll_never_nan() {
    let ta: [f64; 5] = kani::any();
    let tb: [f64; 5] = kani::any();
    let mut i = 0;
    while i < 5 {
        kani::assume(ta[i].is_finite() && tb[i].is_finite());
        i += 1;
    }
    unsafe {
        TA = ta;
        TB = tb;
    }
    let w0: f64 = kani::any();
    let c: f64 = kani::any();
    kani::assume(w0 >= 1e-9 && w0 <= 1.0 - 1e-9);
    kani::assume(c >= 1.0 && c <= 1e9);
    let count: f64 = kani::any();
    kani::assume(count >= 0.0 && count <= 1e12);
    let pars = [w0, c];
    let counts = [count];
    let g = grad_ll(&pars, &counts);
    assert!(g.len() == 2);
    assert!(!g[0].is_nan() && !g[1].is_nan());
}
