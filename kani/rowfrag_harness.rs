// BOUNDED Kani checks (rows of length <= 4; never counted as proved) of the row predicates of MergeSkaArray::filter,
// lifted verbatim into a fragment crate by vx (specs/rowfrag_k.vx).  They do not depend on how an arm is written,
// so they still decide when an arm is re-implemented in a style Verus cannot take.  Serves C06.
use super::*;

fn any_sym() -> u8 {
    let c: u8 = kani::any();
    kani::assume(c < 8);
    [b'A', b'C', b'a', b'T', b'-', b'R', b'N', b'U'][c as usize]
}

fn any_row() -> Vec<u8> {
    let n: usize = kani::any();
    kani::assume(n <= 4);
    let cells = [any_sym(), any_sym(), any_sym(), any_sym()];
    let mut v = Vec::new();
    let mut i = 0;
    while i < n {
        v.push(cells[i]);
        i += 1;
    }
    v
}

fn spec_ambig(b: u8) -> bool {
    !matches!(b | 0x20, b'a' | b'c' | b'g' | b't' | b'u' | b'-')
}

#[kani::proof]
#[kani::unwind(7)]
fn bounded_keep_noconst_len4() {
    let row = any_row();
    let igc: bool = kani::any();
    let mut want = false;
    let mut i = 0;
    while i < row.len() {
        let mut j = 0;
        while j < row.len() {
            if (!igc || row[i] != b'-') && (!igc || row[j] != b'-') && row[i] != row[j] {
                want = true;
            }
            j += 1;
        }
        i += 1;
    }
    assert!(keep_noconst(&row, igc) == want);
    kani::cover!(want && igc);
    kani::cover!(!want && row.len() == 4);
}

#[kani::proof]
#[kani::unwind(7)]
fn bounded_keep_noambig_len4() {
    let row = any_row();
    let mut want = true;
    let mut i = 0;
    while i < row.len() {
        if spec_ambig(row[i]) {
            want = false;
        }
        i += 1;
    }
    assert!(keep_noambig(&row) == want);
    kani::cover!(!want);
    kani::cover!(want && row.len() == 4);
}

// at least two distinct symbols among a/c/g/t/u (either case, each case variant is its own symbol) and gap
// (gap only when gaps are not ignored)
#[kani::proof]
#[kani::unwind(7)]
fn bounded_keep_noambig_or_const_len4() {
    let row = any_row();
    let igc: bool = kani::any();
    let mut count = 0;
    let mut i = 0;
    while i < row.len() {
        let b = row[i];
        let mut first = true;
        let mut j = 0;
        while j < i {
            if row[j] == b {
                first = false;
            }
            j += 1;
        }
        let l = b | 0x20;
        let w = if l == b'a' || l == b'c' || l == b'g' || l == b't' || l == b'u' { 1 } else if l == b'-' && !igc { 1 } else { 0 };
        if first {
            count += w;
        }
        i += 1;
    }
    assert!(keep_noambig_or_const(&row, igc) == (count > 1));
    kani::cover!(count > 1);
    kani::cover!(count == 1 && row.len() == 4);
}

#[kani::proof]
fn count_pred_all_bytes() {
    let b: u8 = kani::any();
    let f: bool = kani::any();
    let r = &b;
    assert!(count_pred(&r, f) == (b != b'-' && (!f || !spec_ambig(b))));
}
