// BOUNDED Kani checks (rows of length <= 4; never counted as proved) of the row predicates of MergeSkaArray::filter,
// lifted verbatim into a fragment crate by vx (specs/rowfrag_k.vx).  They do not depend on how an arm is written,
// so they still decide when an arm is re-implemented in a style Verus cannot take.  Serves C06.
use super::*;

fn any_sym() -> u8 {
    let c: u8 = kani::any();
    kani::assume(c < 8);
    [b'A', b'C', b'a', b'T', b'-', b'R', b'N', b'U'][c as usize]
}

fn any_row() -> Vec<u8> {
    let n: usize = kani::any();
    kani::assume(n <= 4);
    let cells = [any_sym(), any_sym(), any_sym(), any_sym()];
    let mut v = Vec::new();
    let mut i = 0;
    while i < n {
        v.push(cells[i]);
        i += 1;
    }
    v
}

fn spec_ambig(b: u8) -> bool {
    !matches!(b | 0x20, b'a' | b'c' | b'g' | b't' | b'u' | b'-')
}

#[kani::proof]
#[kani::unwind(7)]
fn bounded_keep_noconst_len4() {
    let row = any_row();
    let igc: bool = kani::any();
    let mut want = false;
    let mut i = 0;
    while i < row.len() {
        let mut j = 0;
        while j < row.len() {
            if (!igc || row[i] != b'-') && (!igc || row[j] != b'-') && row[i] != row[j] {
                want = true;
            }
            j += 1;
        }
        i += 1;
    }
    assert!(keep_noconst(&row, igc) == want);
    kani::cover!(want && igc);
    kani::cover!(!want && row.len() == 4);
}

#[kani::proof]
#[kani::unwind(7)]
fn bounded_keep_noambig_len4() {
    let row = any_row();
    let mut want = true;
    let mut i = 0;
    while i < row.len() {
        if spec_ambig(row[i]) {
            want = false;
        }
        i += 1;
    }
    assert!(keep_noambig(&row) == want);
    kani::cover!(!want);
    kani::cover!(want && row.len() == 4);
}

// at least two distinct symbols among a/c/g/t/u (either case, each case variant is its own symbol) and gap
// (gap only when gaps are not ignored)
#[kani::proof]
#[kani::unwind(7)]
fn bounded_keep_noambig_or_const_len4() {
    let row = any_row();
    let igc: bool = kani::any();
    let mut count = 0;
    let mut i = 0;
    while i < row.len() {
        let b = row[i];
        let mut first = true;
        let mut j = 0;
        while j < i {
            if row[j] == b {
                first = false;
            }
            j += 1;
        }
        let l = b | 0x20;
        let w = if l == b'a' || l == b'c' || l == b'g' || l == b't' || l == b'u' { 1 } else if l == b'-' && !igc { 1 } else { 0 };
        if first {
            count += w;
        }
        i += 1;
    }
    assert!(keep_noambig_or_const(&row, igc) == (count > 1));
    kani::cover!(count > 1);
    kani::cover!(count == 1 && row.len() == 4);
}

#[kani::proof]
fn count_pred_all_bytes() {
    let b: u8 = kani::any();
    let f: bool = kani::any();
    let r = &b;
    assert!(count_pred(&r, f) == (b != b'-' && (!f || !spec_ambig(b))));
}

// BOUNDED (rows of length <= 3): one iteration of filter()'s row loop, lifted whole.  A row is kept exactly when its
// stored count reaches the threshold AND it passes the site filter; a kept row is appended (in order) together with
// its count and, if update_kmers, its k-mer; anything else increments `removed` and appends nothing.
fn spec_keep(ft: u8, row: &Vec<u8>, igc: bool) -> bool {
    // distinct eligible symbols / ambiguity / weighted distinct symbols, as in the property
    let n = row.len();
    let mut two_distinct = false;
    let mut any_ambig = false;
    let mut weight = 0;
    let mut i = 0;
    while i < n {
        if spec_ambig(row[i]) {
            any_ambig = true;
        }
        let mut first = true;
        let mut j = 0;
        while j < n {
            if (!igc || row[i] != b'-') && (!igc || row[j] != b'-') && row[i] != row[j] {
                two_distinct = true;
            }
            if j < i && row[j] == row[i] {
                first = false;
            }
            j += 1;
        }
        let l = row[i] | 0x20;
        if first && (l == b'a' || l == b'c' || l == b'g' || l == b't' || l == b'u' || (l == b'-' && !igc)) {
            weight += 1;
        }
        i += 1;
    }
    match ft {
        0 => true,
        1 => two_distinct,
        2 => !any_ambig,
        _ => weight > 1,
    }
}

#[kani::proof]
#[kani::unwind(6)]
fn bounded_filter_row_step_len3() {
    let n: usize = kani::any();
    kani::assume(n <= 3);
    let cells = [any_sym(), any_sym(), any_sym()];
    let mut row: Vec<u8> = Vec::new();
    let mut i = 0;
    while i < n {
        row.push(cells[i]);
        i += 1;
    }
    let count: usize = kani::any();
    let min_count: usize = kani::any();
    kani::assume(count <= 4 && min_count <= 4);
    let kmer: u64 = kani::any();
    let igc: bool = kani::any();
    let upd: bool = kani::any();
    let ftc: u8 = kani::any();
    kani::assume(ftc < 4);
    let ft = match ftc {
        0 => FilterType::NoFilter,
        1 => FilterType::NoConst,
        2 => FilterType::NoAmbig,
        _ => FilterType::NoAmbigOrConst,
    };
    let removed0: i32 = kani::any();
    kani::assume(removed0 >= 0 && removed0 < 1000);
    let (fv, fc, fk, removed) = filter_row_step(((&count, &row), &kmer), min_count, &ft, igc, upd,
        RowsShim { rows: Vec::new() }, Vec::new(), Vec::new(), removed0);
    let keep = count >= min_count && spec_keep(ftc, &row, igc);
    if keep {
        assert!(removed == removed0);
        assert!(fv.rows.len() == 1 && fc.len() == 1);
        assert!(fc[0] == count);
        assert!(fv.rows[0].len() == n);
        let mut j = 0;
        while j < n {
            assert!(fv.rows[0][j] == row[j]);
            j += 1;
        }
        assert!(fk.len() == if upd { 1 } else { 0 });
        if upd {
            assert!(fk[0] == kmer);
        }
    } else {
        assert!(removed == removed0 + 1);
        assert!(fv.rows.len() == 0 && fc.len() == 0 && fk.len() == 0);
    }
    kani::cover!(keep && ftc == 3);
    kani::cover!(!keep && count >= min_count);
}
