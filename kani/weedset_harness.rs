// Kani checks on two fragments of MergeSkaArray::weed lifted verbatim by vx (specs/weedset_k.vx) into the scratch copy
// of the real crate.  Inside this module `HashSet` is the duplicate-free vector below (R3 by name resolution: Kani
// does not terminate on one hashbrown insert), everything else — RefSka::kmer_iter, ndarray, the zip — is the real code.
//   weed_set_is_the_listed_kmers   the set of weed k-mers == the k-mers listed by the RefSka, for every list of <= 3
//                                  k-mers with arbitrary u64 values (BOUNDED by the list length)
//   bounded_weed_whole_1x2         the whole body on a 1 x 2 table and one weed k-mer: the row survives iff its k-mer
//                                  is (not, with reverse) the listed one, with all its bases and its count;
//                                  names, k, strand mode untouched (BOUNDED)
// Serves C13.
use super::*;
use crate::ska_ref::verif_kani_weedhelp::refska_with_kmers;
use ndarray::arr2;

/// R3 stand-in for hashbrown::HashSet: a set as a duplicate-free vector with the same interface
pub struct HashSet<T> {
    v: Vec<T>,
}
impl<T: PartialEq> HashSet<T> {
    pub fn new() -> Self {
        HashSet { v: Vec::new() }
    }
    pub fn with_capacity(_n: usize) -> Self {
        HashSet { v: Vec::new() }
    }
    pub fn contains(&self, x: &T) -> bool {
        let mut i = 0;
        while i < self.v.len() {
            if self.v[i] == *x {
                return true;
            }
            i += 1;
        }
        false
    }
    pub fn insert(&mut self, x: T) -> bool {
        if self.contains(&x) {
            return false;
        }
        self.v.push(x);
        true
    }
    pub fn len(&self) -> usize {
        self.v.len()
    }
    pub fn is_empty(&self) -> bool {
        self.v.is_empty()
    }
}
impl<T: PartialEq> Extend<T> for HashSet<T> {
    fn extend<I: IntoIterator<Item = T>>(&mut self, iter: I) {
        for x in iter {
            self.insert(x);
        }
    }
}
impl<T: PartialEq> FromIterator<T> for HashSet<T> {
    fn from_iter<I: IntoIterator<Item = T>>(iter: I) -> Self {
        let mut s = HashSet::new();
        for x in iter {
            s.insert(x);
        }
        s
    }
}

include!(concat!(env!("CARGO_MANIFEST_DIR"), "/src/verif_frag_weedset.rs"));

fn any_kmers(max: usize) -> Vec<u64> {
    let n: usize = kani::any();
    kani::assume(n <= max);
    let cells: [u64; 3] = [kani::any(), kani::any(), kani::any()];
    let mut v = Vec::new();
    let mut i = 0;
    while i < n {
        v.push(cells[i]);
        i += 1;
    }
    v
}

fn listed(l: &Vec<u64>, x: u64) -> bool {
    let mut i = 0;
    while i < l.len() {
        if l[i] == x {
            return true;
        }
        i += 1;
    }
    false
}

fn empty_array() -> MergeSkaArray<u64> {
    MergeSkaArray::<u64> {
        k: 31,
        rc: true,
        names: Vec::new(),
        split_kmers: Vec::new(),
        variants: Array2::zeros((0, 0)),
        variant_count: Vec::new(),
        ska_version: String::new(),
        k_bits: 64,
    }
}

#[kani::proof]
#[kani::unwind(6)]
fn weed_set_is_the_listed_kmers() {
    let l = any_kmers(3);
    let r = refska_with_kmers::<u64>(31, &l);
    let mut arr = empty_array();
    let reverse: bool = kani::any();
    let s = weed_set(&mut arr, &r, reverse);
    let probe: u64 = kani::any();
    assert!(s.contains(&probe) == listed(&l, probe));
    kani::cover!(l.len() == 3 && l[0] == 0 && l[1] == 0 && l[2] != 0);
    kani::cover!(l.len() == 0);
}

// the whole body on ONE row (the smallest table; two rows exhaust CBMC's memory in ndarray's push_row): the row
// survives iff its k-mer is (not, with reverse) the listed one, with its bases and count; names, k, strand mode untouched
#[kani::proof]
#[kani::unwind(6)]
fn bounded_weed_whole_1x2() {
    let w: u64 = kani::any();
    let l = vec![w];
    let r = refska_with_kmers::<u64>(31, &l);
    let cells: [[u8; 2]; 1] = kani::any();
    let k0: u64 = kani::any();
    let c0: usize = kani::any();
    let reverse: bool = kani::any();
    let mut arr = MergeSkaArray::<u64> {
        k: 31,
        rc: kani::any(),
        names: vec![String::new(), String::new()],
        split_kmers: vec![k0],
        variants: arr2(&cells),
        variant_count: vec![c0],
        ska_version: String::new(),
        k_bits: 64,
    };
    let rc0 = arr.rc;

    weed_whole(&mut arr, &r, reverse);

    let keep0 = (k0 == w) == reverse;
    let n = keep0 as usize;
    assert!(arr.split_kmers.len() == n && arr.variant_count.len() == n);
    assert!(arr.variants.nrows() == n && arr.variants.ncols() == 2);
    assert!(arr.names.len() == 2 && arr.k == 31 && arr.rc == rc0);
    if keep0 {
        assert!(arr.split_kmers[0] == k0 && arr.variant_count[0] == c0);
        assert!(arr.variants[[0, 0]] == cells[0][0] && arr.variants[[0, 1]] == cells[0][1]);
    }
    kani::cover!(n == 0 && reverse);
    kani::cover!(n == 1 && reverse);
    kani::cover!(n == 1 && !reverse);
}
