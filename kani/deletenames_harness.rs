// BOUNDED Kani check (never counted as proved) of the first half of MergeSkaArray::delete_samples, lifted verbatim by
// vx (specs/deletenames_k.vx) into a dependency-free crate with String / HashSet / Vec re-bound to small stand-ins.
// Bound: a file with 3 samples (distinct symbolic names), a duplicate-free delete list of 0..=3 symbolic names.
// Contract (C08):
//   * refused (panic) exactly when the list is empty, names every sample, or names a sample that is not in the file;
//   * otherwise the deleted indices are exactly the positions of the named samples, ascending, and the kept names are
//     the remaining ones in their old order.
use super::*;

#[kani::proof]
#[kani::unwind(6)]
fn delete_names_contract() {
    let nm: [u8; 3] = kani::any();
    kani::assume(nm[0] != 0 && nm[1] != 0 && nm[2] != 0 && nm[0] != nm[1] && nm[0] != nm[2] && nm[1] != nm[2]);
    let mut names = Vec::new();
    names.push(Name(nm[0]));
    names.push(Name(nm[1]));
    names.push(Name(nm[2]));
    let mut arr = MergeSkaArray { names };
    let dl: usize = kani::any();
    kani::assume(dl <= 3);
    let dv: [u8; 3] = kani::any();
    kani::assume(dv[0] != 0 && dv[1] != 0 && dv[2] != 0);
    kani::assume(dl < 2 || dv[0] != dv[1]);
    kani::assume(dl < 3 || (dv[0] != dv[2] && dv[1] != dv[2]));
    let lits = [NameLit(dv[0]), NameLit(dv[1]), NameLit(dv[2])];
    let refs: [&NameLit; 3] = [&lits[0], &lits[1], &lits[2]];
    unsafe {
        REFUSED = false;
    }

    let (idx, kept) = delete_names(&mut arr, &refs[..dl]);

    // which samples are named, and is every named sample in the file
    let mut del = [false; 3];
    let mut all_known = true;
    let mut j = 0;
    while j < dl {
        let mut known = false;
        let mut i = 0;
        while i < 3 {
            if nm[i] == dv[j] {
                del[i] = true;
                known = true;
            }
            i += 1;
        }
        if !known {
            all_known = false;
        }
        j += 1;
    }
    let valid = dl >= 1 && dl != 3 && all_known;
    assert!(unsafe { REFUSED } == !valid);
    if valid {
        assert!(idx.len() == dl && kept.len() == 3 - dl);
        let mut at_i = 0;
        let mut at_k = 0;
        let mut i = 0;
        while i < 3 {
            if del[i] {
                assert!(idx[at_i] == i);
                at_i += 1;
            } else {
                assert!(kept[at_k] == Name(nm[i]));
                at_k += 1;
            }
            i += 1;
        }
    }
    kani::cover!(valid && dl == 2 && del[0] && del[2]);
    kani::cover!(!valid && dl == 1);
    kani::cover!(!valid && dl == 3);
    kani::cover!(!valid && dl == 2 && del[1]);
}
