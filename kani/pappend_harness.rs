// Kani harnesses on multi_append / parallel_append (src/merge_ska_dict.rs), copied verbatim by vx
// (specs/pappend_k.vx) into a dependency-free crate with recording stand-ins for SkaDict / MergeSkaDict and a
// sequential rayon::join.  BOUNDED (at most 8 input files, recursion depth 1..3, i.e. --threads 2..8).
// Contract, from C02/C07: building `file_list` at `offset` puts input i — exactly once — into column offset + i under
// its own name, and touches no other column.
use super::*;

fn check(n: usize, depth: usize) {
    let ids: [u8; 8] = kani::any();
    let mut files: [InputFastx; 8] = [(Name(0), Name(0), None); 8];
    let mut i = 0;
    while i < 8 {
        kani::assume(ids[i] != 0);
        files[i] = (Name(ids[i]), Name(ids[i]), None);
        i += 1;
    }
    let offset: usize = kani::any();
    kani::assume(offset <= 2);
    let total = offset + n + 1;
    let r: MergeSkaDict<u64> = parallel_append(depth, offset, &files[..n], total, 31, true, &QualOpts, None);
    let mut c = 0;
    while c < COLS {
        if c >= offset && c < offset + n {
            assert!(r.count[c] == 1);
            assert!(r.names[c] == files[c - offset].0);
        } else {
            assert!(r.count[c] == 0);
            assert!(r.names[c].is_empty());
        }
        c += 1;
    }
    kani::cover!(offset == 2 && r.count[2] == 1);
}

#[kani::proof]
#[kani::unwind(14)]
fn bounded_parallel_append_8files_depth3() { check(8, 3); }

#[kani::proof]
#[kani::unwind(14)]
fn bounded_parallel_append_7files_depth2() { check(7, 2); }

#[kani::proof]
#[kani::unwind(14)]
fn bounded_parallel_append_5files_depth1() { check(5, 1); }

#[kani::proof]
#[kani::unwind(14)]
fn bounded_parallel_append_4files_depth3() { check(4, 3); }
