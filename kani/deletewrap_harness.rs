// Kani harness on the real `generic_modes::delete` with MergeSkaArray::delete_samples and ::save replaced by recording
// stubs.  Contract (C08): delete_samples is called once, with the names given, BEFORE the file is written; the file is
// written exactly once afterwards, under the given name — so a refusal (panic) inside delete_samples leaves the file
// unchanged.  Complete for the wrapper (it has no data-dependent branch besides the `.skf` suffix test; the name used
// here already carries the suffix, the format! of the other branch is String code).
use super::*;

static mut DEL_CALLS: u32 = 0;
static mut DEL_NAMES_OK: bool = false;
static mut SAVE_CALLS: u32 = 0;
static mut SAVE_AFTER_DELETE: bool = false;
static mut SAVE_NAME_OK: bool = false;

fn delete_samples_stub<IntT: for<'a> UInt<'a>>(_s: &mut MergeSkaArray<IntT>, del_names: &[&str]) {
    unsafe {
        DEL_CALLS += 1;
        DEL_NAMES_OK = del_names.len() == 2 && del_names[0].as_bytes() == b"p" && del_names[1].as_bytes() == b"q";
    }
}

fn save_stub<IntT: for<'a> UInt<'a>>(_s: &MergeSkaArray<IntT>, filename: &str) -> Result<(), Box<dyn std::error::Error>> {
    let b = filename.as_bytes();
    unsafe {
        SAVE_CALLS += 1;
        SAVE_AFTER_DELETE = DEL_CALLS == 1;
        SAVE_NAME_OK = b.len() == 5 && b[0] == b'o' && b[1] == b'.' && b[2] == b's' && b[3] == b'k' && b[4] == b'f';
    }
    Ok(())
}

#[kani::proof]
#[kani::unwind(8)]
#[kani::stub(MergeSkaArray::delete_samples, delete_samples_stub)]
#[kani::stub(MergeSkaArray::save, save_stub)]
fn delete_wrapper_contract() {
    let mut arr = MergeSkaArray::<u64> {
        k: 31,
        rc: true,
        names: Vec::new(),
        split_kmers: Vec::new(),
        variants: Array2::zeros((0, 0)),
        variant_count: Vec::new(),
        ska_version: String::new(),
        k_bits: 64,
    };
    let names: [&str; 2] = ["p", "q"];
    crate::generic_modes::delete(&mut arr, &names, "o.skf");
    unsafe {
        assert!(DEL_CALLS == 1 && DEL_NAMES_OK);
        assert!(SAVE_CALLS == 1 && SAVE_AFTER_DELETE && SAVE_NAME_OK);
    }
    kani::cover!(true, "end of harness reached");
}
