// Kani harnesses on the real generic trait code `impl UInt for u64 / u128` (src/ska_dict/bit_encoding.rs).
// Loop-free over full symbolic domains (every value, every k): complete proofs.  Serves C16 and closes the
// gap opened by monomorphising in the Verus units (R1): the same bit-level contracts are checked here through
// the real trait.
use super::*;

macro_rules! bit_harnesses {
    ($pb:ident, $inv:ident, $masks:ident, $small:ident; $t:ty, $wb:expr) => {

            // base j of rev_comp(x,k) is the complement of base k-1-j of x; nothing above bit 2k
            #[kani::proof]
            fn $pb() {
                let x: $t = kani::any();
                let k: usize = kani::any();
                kani::assume(k >= 1 && k <= $wb);
                let j: usize = kani::any();
                kani::assume(j < k);
                let r = <$t as UInt>::rev_comp(x, k);
                assert!(((r >> (2 * j)) & 3) == (((x >> (2 * (k - 1 - j))) & 3) ^ 2));
                if k < $wb {
                    assert!((r >> (2 * k)) == 0);
                }
                kani::cover!(k == $wb);
                kani::cover!(k == 1);
            }

            // involution on k-base values
            #[kani::proof]
            fn $inv() {
                let x: $t = kani::any();
                let k: usize = kani::any();
                kani::assume(k >= 1 && k <= $wb);
                if k < $wb {
                    kani::assume((x >> (2 * k)) == 0);
                }
                let r = <$t as UInt>::rev_comp(x, k);
                assert!(<$t as UInt>::rev_comp(r, k) == x);
                kani::cover!(k == 31);
            }

            #[kani::proof]
            fn $masks() {
                let k: usize = kani::any();
                kani::assume(k >= 3 && k <= $wb - 1 && k % 2 == 1);
                let h = (k - 1) / 2;
                let (lower, upper) = <$t as UInt>::generate_masks(k);
                let one: $t = 1;
                assert!(lower == (one << (2 * h)) - 1);
                assert!(upper == lower << (2 * h));
                assert!(lower & upper == 0);
                assert!((lower | upper) == (one << (2 * (k - 1))) - 1);
                let k2: usize = kani::any();
                kani::assume(k2 >= 1 && k2 <= $wb - 1);
                let s = <$t as UInt>::skalo_mask(k2);
                assert!(s == (one << (2 * k2)) - 1);
                kani::cover!(k == $wb - 1);
            }

            #[kani::proof]
            fn $small() {
                let x: $t = kani::any();
                let y: $t = kani::any();
                let b: u8 = kani::any();
                assert!(<$t as UInt>::lsb_u8(x) == (x & 3) as u8);
                assert!(<$t as UInt>::as_u8(x) == (x & 0xFF) as u8);
                assert!(<$t as UInt>::from_encoded_base(b) == b as $t);
                assert!(<$t as UInt>::zero_init() == 0);
                assert!(<$t as UInt>::combine_kmers(x, y) == (x << 2) | (y & 3));
                assert!(<$t as UInt>::get_last_nucl(x) == decode_base((x & 3) as u8) as char);
                assert!(<$t as UInt>::n_bits() == 2 * $wb);
            }
    };
}

bit_harnesses!(rev_comp_per_base_u64, rev_comp_involution_u64, masks_u64, small_ops_u64; u64, 32);
bit_harnesses!(rev_comp_per_base_u128, rev_comp_involution_u128, masks_u128, small_ops_u128; u128, 64);

// packing a string with encode_kmer and reading the bases back (code j from the right is base len-1-j);
// length is a concrete 5 here: the fold is the only loop, the bit-level statement for every length is the
// Verus lemma `lemma_code_at` over `pack`
#[kani::proof]
#[kani::unwind(7)]
fn encode_kmer_len5_u64() {
    let s: [u8; 5] = kani::any();
    let v = <u64 as UInt>::encode_kmer(&s);
    let j: usize = kani::any();
    kani::assume(j < 5);
    assert!(((v >> (2 * j)) & 3) as u8 == encode_base(s[4 - j]));
    assert!(v >> 10 == 0);
}

// decode_kmer (String code used by `ska nk`) was tried as a bounded harness at k = 5: CBMC ran out of memory
// (24 GB) in chars().rev().collect(); it stays unverified (DESIGN §9.2).
