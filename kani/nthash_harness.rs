// Kani harnesses on the real ntHash code (src/ska_dict/nthash.rs).  Per k the only loops run over the k bases of
// the window, so `unwind(k+3)` with unwinding assertions is complete for that k (k itself is the stated bound:
// quick runs the k listed without the `thorough_` prefix).  Serves C12 and C16:
//   rolling == from scratch, and (two-strand mode) a k-mer and its reverse complement hash alike.
use super::*;

fn comp(b: u8) -> u8 {
    match b {
        b'A' => b'T',
        b'C' => b'G',
        b'G' => b'C',
        _ => b'A',
    }
}

fn any_base() -> u8 {
    let c: u8 = kani::any();
    kani::assume(c < 4);
    [b'A', b'C', b'T', b'G'][c as usize]
}

// the two index-loop mirrors of `new`'s accumulation loops; the SAME file is extracted by vx into the Verus unit
// `kmer`, where the mirrors are proved equal to the folds fh_n / rh_n for every k
include!("/verif/specs/nthash_mirror.rs");

// discharges the two assume_specification's of the Verus unit: rotate_left / rotate_right are the shift formulas
#[kani::proof]
fn rotate_spec_all_values() {
    let x: u64 = kani::any();
    let n: u32 = kani::any();
    let m = n % 64;
    let l = if m == 0 { x } else { (x << m) | (x >> (64 - m)) };
    let r = if m == 0 { x } else { (x >> m) | (x << (64 - m)) };
    assert!(x.rotate_left(n) == l);
    assert!(x.rotate_right(n) == r);
}

// the real `new` (iterator adapters enumerate / rev) computes what the index-loop mirrors compute, per k
macro_rules! nthash_new {
    ($name:ident; $k:expr, $unw:expr) => {
        #[kani::proof]
        #[kani::unwind($unw)]
        fn $name() {
            const K: usize = $k;
            let mut w = [b'A'; K];
            let mut i = 0;
            while i < K {
                w[i] = kani::any();
                i += 1;
            }
            let rc: bool = kani::any();
            let it = NtHashIterator::new(&w[0..K], K, rc);
            assert!(it.k == K);
            assert!(it.fh == nthash_fwd_mirror(&w[0..K], K));
            if rc {
                assert!(it.rh == Some(nthash_rev_mirror(&w[0..K], K)));
            } else {
                assert!(it.rh.is_none());
            }
            kani::cover!(rc);
        }
    };
}

// the reverse-strand table is the forward table of the complemented base (all 4 entries)
#[kani::proof]
fn nthash_tables_complementary() {
    let c: u8 = kani::any();
    kani::assume(c < 4);
    assert!(RC_HASH_LOOKUP[c as usize] == HASH_LOOKUP[(c ^ 2) as usize]);
}

// the reported hash is symmetric in (forward, reverse) — loop-free, all values
#[kani::proof]
fn nthash_curr_hash_symmetric() {
    let x: u64 = kani::any();
    let y: u64 = kani::any();
    let k: usize = kani::any();
    let a = NtHashIterator { k, fh: x, rh: Some(y) };
    let b = NtHashIterator { k, fh: y, rh: Some(x) };
    assert!(a.curr_hash() == b.curr_hash());
    let c = NtHashIterator { k, fh: x, rh: None };
    assert!(c.curr_hash() == x);
}

// rolling one base equals hashing the shifted window from scratch (both strands' accumulators)
macro_rules! nthash_roll {
    ($name:ident; $k:expr, $unw:expr) => {
        #[kani::proof]
        #[kani::unwind($unw)]
        fn $name() {
            const K: usize = $k;
            let mut w = [b'A'; K + 1];
            let mut i = 0;
            while i < K + 1 {
                w[i] = any_base();
                i += 1;
            }
            let rc: bool = kani::any();
            let mut it = NtHashIterator::new(&w[0..K], K, rc);
            it.roll_fwd(encode_base(w[0]), encode_base(w[K]));
            let fresh = NtHashIterator::new(&w[1..K + 1], K, rc);
            assert!(it.fh == fresh.fh);
            assert!(it.rh == fresh.rh);
            assert!(it.k == K);
            kani::cover!(rc);
            kani::cover!(!rc);
        }
    };
}

// forward accumulator of a window == reverse accumulator of its reverse complement, and vice versa
macro_rules! nthash_sym {
    ($name:ident; $k:expr, $unw:expr) => {
        #[kani::proof]
        #[kani::unwind($unw)]
        fn $name() {
            const K: usize = $k;
            let mut w = [b'A'; K];
            let mut i = 0;
            while i < K {
                w[i] = any_base();
                i += 1;
            }
            let mut r = [b'A'; K];
            let mut j = 0;
            while j < K {
                r[j] = comp(w[K - 1 - j]);
                j += 1;
            }
            let a = NtHashIterator::new(&w[0..K], K, true);
            let b = NtHashIterator::new(&r[0..K], K, true);
            assert!(a.rh.is_some() && b.rh.is_some());
            assert!(Some(a.fh) == b.rh);
            assert!(a.rh == Some(b.fh));
        }
    };
}

// measured: k=5 5 s, k=7 10 s, k=31 134 s, k=63 720 s (the XOR chains go through slice iterators on one side
// and index loops on the other, so SAT has real work to do); quick runs k in {5,7,15}
nthash_new!(nthash_new_k5; 5, 9);
nthash_new!(nthash_new_k7; 7, 11);
nthash_new!(nthash_new_k15; 15, 19);
nthash_new!(thorough_nthash_new_k9; 9, 13);
nthash_new!(thorough_nthash_new_k21; 21, 25);
nthash_new!(thorough_nthash_new_k31; 31, 35);
nthash_new!(thorough_nthash_new_k33; 33, 37);
nthash_new!(thorough_nthash_new_k63; 63, 67);
// end-to-end cross-checks on the real code alone (independent of the Verus route), small k only: XOR chains are
// hard for SAT, k = 31 takes minutes
nthash_roll!(nthash_roll_k5; 5, 9);
nthash_roll!(thorough_nthash_roll_k7; 7, 11);
nthash_roll!(thorough_nthash_roll_k15; 15, 19);
nthash_sym!(nthash_sym_k5; 5, 9);
nthash_sym!(thorough_nthash_sym_k7; 7, 11);
nthash_sym!(thorough_nthash_sym_k15; 15, 19);
