// Kani harnesses, attached (by #[path]) to src/ska_dict/bit_encoding.rs of a scratch copy of /repo.
// They run on the real `pub const` tables and functions. All harnesses are loop-free over
// full symbolic domains (every u8), i.e. complete proofs, not bounded checks.  Serves C15 (+C01, C05).
use super::*;

/// 4-bit set semantics of the 15 IUPAC letters: bit0=A bit1=C bit2=G bit3=T.  0 = not a code.
fn iupac_mask(b: u8) -> u8 {
    match b {
        b'A' | b'a' => 0b0001,
        b'C' | b'c' => 0b0010,
        b'G' | b'g' => 0b0100,
        b'T' | b't' => 0b1000,
        b'R' | b'r' => 0b0101,
        b'Y' | b'y' => 0b1010,
        b'S' | b's' => 0b0110,
        b'W' | b'w' => 0b1001,
        b'K' | b'k' => 0b1100,
        b'M' | b'm' => 0b0011,
        b'B' | b'b' => 0b1110,
        b'D' | b'd' => 0b1101,
        b'H' | b'h' => 0b1011,
        b'V' | b'v' => 0b0111,
        b'N' | b'n' => 0b1111,
        _ => 0,
    }
}

/// upper-case letter of a non-empty set
fn iupac_letter(m: u8) -> u8 {
    match m {
        0b0001 => b'A',
        0b0010 => b'C',
        0b0100 => b'G',
        0b1000 => b'T',
        0b0101 => b'R',
        0b1010 => b'Y',
        0b0110 => b'S',
        0b1001 => b'W',
        0b1100 => b'K',
        0b0011 => b'M',
        0b1110 => b'B',
        0b1101 => b'D',
        0b1011 => b'H',
        0b0111 => b'V',
        0b1111 => b'N',
        _ => 0,
    }
}

/// set bit of a 2-bit encoded base (A=0 C=1 T=2 G=3)
fn code_bit(c: u8) -> u8 {
    match c {
        0 => 0b0001,
        1 => 0b0010,
        2 => 0b1000,
        _ => 0b0100,
    }
}

/// complement of a set: A<->T, C<->G
fn comp_mask(m: u8) -> u8 {
    ((m & 0b0001) << 3) | ((m & 0b1000) >> 3) | ((m & 0b0010) << 1) | ((m & 0b0100) >> 1)
}

// the oracle itself: letter/mask are inverse on the 15 non-empty sets
#[kani::proof]
fn oracle_bijective() {
    let m: u8 = kani::any();
    kani::assume(m >= 1 && m <= 15);
    let l = iupac_letter(m);
    assert!(l != 0);
    assert!(iupac_mask(l) == m);
    assert!(iupac_mask(l | 0x20) == m);
    kani::cover!(m == 15);
}

// IUPAC[b*256 + e] is the code of set(e) ∪ {b} for the 15 letters in either case, 0 for every other byte
#[kani::proof]
fn iupac_union() {
    let e: u8 = kani::any();
    let b: u8 = kani::any();
    kani::assume(b < 4);
    let got = IUPAC[b as usize * 256 + e as usize];
    let m = iupac_mask(e);
    if m != 0 {
        assert!(got == iupac_letter(m | code_bit(b)));
    } else {
        assert!(got == 0);
    }
    kani::cover!(m != 0 && got == b'N');
    kani::cover!(m == 0);
}

// order and multiplicity of observations do not matter: adding is idempotent and commutative on codes
#[kani::proof]
fn iupac_order_independent() {
    let e: u8 = kani::any();
    let b1: u8 = kani::any();
    let b2: u8 = kani::any();
    kani::assume(b1 < 4 && b2 < 4);
    kani::assume(iupac_mask(e) != 0);
    let s1 = IUPAC[b1 as usize * 256 + e as usize];
    let s12 = IUPAC[b2 as usize * 256 + s1 as usize];
    let s2 = IUPAC[b2 as usize * 256 + e as usize];
    let s21 = IUPAC[b1 as usize * 256 + s2 as usize];
    assert!(s12 == s21);
    let s11 = IUPAC[b1 as usize * 256 + s1 as usize];
    assert!(s11 == s1);
    // the first observation of a k-mer is stored with decode_base: same as adding to the empty set
    assert!(iupac_mask(decode_base(b1)) == code_bit(b1));
    kani::cover!(s12 == b'N');
}

// RC_IUPAC: complement of the set for the 15 letters (either case), '-' for every other byte (incl. 'U')
#[kani::proof]
fn rc_iupac_complement() {
    let e: u8 = kani::any();
    let got = RC_IUPAC[e as usize];
    let m = iupac_mask(e);
    if m != 0 {
        assert!(got == iupac_letter(comp_mask(m)));
        // involution on its image
        assert!(RC_IUPAC[got as usize] == iupac_letter(m));
    } else {
        assert!(got == b'-');
    }
    kani::cover!(m != 0);
    kani::cover!(m == 0);
}

#[kani::proof]
fn rc_iupac_fixed_points() {
    assert!(RC_IUPAC[b'S' as usize] == b'S');
    assert!(RC_IUPAC[b'W' as usize] == b'W');
    assert!(RC_IUPAC[b'N' as usize] == b'N');
    assert!(RC_IUPAC[b'-' as usize] == b'-');
    assert!(RC_IUPAC[b's' as usize] == b'S');
    assert!(RC_IUPAC[b'w' as usize] == b'W');
    assert!(RC_IUPAC[b'n' as usize] == b'N');
}

// is_ambiguous over the domain the property names: the 15 letters, U and gap, both cases
#[kani::proof]
fn is_ambiguous_classification() {
    let e: u8 = kani::any();
    let m = iupac_mask(e);
    let is_u = e == b'U' || e == b'u';
    let is_gap = e == b'-';
    kani::assume(m != 0 || is_u || is_gap);
    let expect = m != 0 && !(m == 1 || m == 2 || m == 4 || m == 8);
    assert!(is_ambiguous(e) == expect);
    kani::cover!(is_ambiguous(e));
    kani::cover!(!is_ambiguous(e));
}

// distance weights: uniform over the set, N and gap carry none, U as T (upper-case stored symbols)
#[kani::proof]
#[kani::unwind(5)]
fn base_to_prob_weights() {
    let e: u8 = kani::any();
    let m0 = iupac_mask(e);
    let is_upper = e >= b'A' && e <= b'Z';
    kani::assume((m0 != 0 && is_upper) || e == b'U' || e == b'-');
    let m = if e == b'U' { 0b1000 } else { m0 };
    let p = base_to_prob(e);
    // order of entries: [A, C, T, G]
    let bits = [0b0001u8, 0b0010, 0b1000, 0b0100];
    let n = (m & 1) + ((m >> 1) & 1) + ((m >> 2) & 1) + ((m >> 3) & 1);
    let w: f64 = if e == b'-' || m == 0b1111 || n == 0 {
        0.0
    } else if n == 1 {
        1.0
    } else if n == 2 {
        0.5
    } else {
        1.0 / 3.0
    };
    let mut i = 0;
    while i < 4 {
        if e != b'-' && m != 0b1111 && (m & bits[i]) != 0 {
            assert!(p[i] == w);
        } else {
            assert!(p[i] == 0.0);
        }
        i += 1;
    }
    kani::cover!(n == 3);
    kani::cover!(e == b'N');
}

// encode/decode/complement of plain bases agree with the set semantics
#[kani::proof]
fn encode_decode_consistent() {
    let e: u8 = kani::any();
    let m = iupac_mask(e);
    kani::assume(m == 1 || m == 2 || m == 4 || m == 8);
    let c = encode_base(e);
    assert!(c < 4);
    assert!(code_bit(c) == m);
    assert!(decode_base(c) == (e & !0x20));
    assert!(code_bit(rc_base(c)) == comp_mask(m));
    assert!(valid_base(e));
    // case-blind
    assert!(encode_base(e ^ 0x20) == c);
    kani::cover!(c == 3);
}

// valid_base rejects exactly N/n among the letters a FASTA over A/C/G/T/N can hold
#[kani::proof]
fn valid_base_n() {
    assert!(!valid_base(b'N'));
    assert!(!valid_base(b'n'));
    let e: u8 = kani::any();
    assert!(valid_base(e) == valid_base(e ^ 0x20));
}

// the five leaf functions against their Verus contracts, for every byte: a complete second discharge of the same
// contracts on the real code, independent of how the bodies are written (the driver accepts it in place of the
// Verus obligation when only the function's own body proof fails after a refactoring)
#[kani::proof]
fn leaf_fns_all_bytes() {
    let b: u8 = kani::any();
    assert!(encode_base(b) == (b >> 1) & 0x3);
    assert!(encode_base(b) < 4);
    assert!(rc_base(b) == b ^ 2);
    assert!(valid_base(b) == (b & 0xF != 14));
    let l = b | 0x20;
    assert!(is_ambiguous(b) == !(l == b'a' || l == b'c' || l == b'g' || l == b't' || l == b'u' || l == b'-'));
    if b < 4 {
        assert!(decode_base(b) == [b'A', b'C', b'T', b'G'][b as usize]);
        assert!(rc_base(b) < 4);
    }
}
