// Kani harness on the real `generic_modes::weed` (the wrapper between the CLI and MergeSkaArray::weed / filter / save)
// with its four callees replaced by recording stubs (file I/O, hashbrown, ndarray).  Contract (C13):
//   * with a weed file: the weed k-mers are built from that file with the .skf's OWN k and strand mode (no repeat /
//     ambiguity masking) and MergeSkaArray::weed is called once with `reverse` unchanged; without one, neither happens;
//   * the frequency/site filter runs afterwards exactly when floor(samples x min_freq) > 0 or a site filter / mask /
//     no-gap-only flag is requested — so with --min-freq 0 and no other filter the weeded table is saved as it is —
//     with every flag passed through and update_kmers == true;
//   * the result is saved exactly once.
// Loop-free over all flag values, all four filter types, samples 0..=4, every f64 min_freq in [0,1], k in {5,..,63}.
use super::*;
use crate::cli::FilterType;
use crate::ska_ref::verif_kani_weedhelp::{refska_new_stub, NEW_ARGS, NEW_CALLS};

static mut WEED_CALLS: u32 = 0;
static mut WEED_REVERSE: bool = false;
static mut WEED_REF_K: usize = 0;
static mut FILTER_CALLS: u32 = 0;
static mut FILTER_REC: (usize, bool, u8, bool, bool, bool) = (0, false, 0, false, false, false);
static mut SAVE_CALLS: u32 = 0;
static mut ORDER: [u8; 4] = [0; 4];
static mut NORD: usize = 0;

fn note(x: u8) {
    unsafe {
        if NORD < 4 {
            ORDER[NORD] = x;
        }
        NORD += 1;
    }
}

fn ft_code(f: &FilterType) -> u8 {
    match f {
        FilterType::NoFilter => 0,
        FilterType::NoConst => 1,
        FilterType::NoAmbig => 2,
        FilterType::NoAmbigOrConst => 3,
    }
}

fn weed_stub<IntT: for<'a> UInt<'a>>(_s: &mut MergeSkaArray<IntT>, weed_ref: &RefSka<IntT>, reverse: bool) {
    unsafe {
        WEED_CALLS += 1;
        WEED_REVERSE = reverse;
        WEED_REF_K = weed_ref.ksize();
    }
    note(1);
}

fn filter_stub<IntT: for<'a> UInt<'a>>(_s: &mut MergeSkaArray<IntT>, min_count: usize, famb: bool, filter: &FilterType, mask: bool, igc: bool, upd: bool) -> i32 {
    unsafe {
        FILTER_CALLS += 1;
        FILTER_REC = (min_count, famb, ft_code(filter), mask, igc, upd);
    }
    note(2);
    0
}

fn save_stub<IntT: for<'a> UInt<'a>>(_s: &MergeSkaArray<IntT>, _filename: &str) -> Result<(), Box<dyn std::error::Error>> {
    unsafe {
        SAVE_CALLS += 1;
    }
    note(3);
    Ok(())
}

#[kani::proof]
#[kani::unwind(6)]
#[kani::stub(RefSka::new, refska_new_stub)]
#[kani::stub(MergeSkaArray::weed, weed_stub)]
#[kani::stub(MergeSkaArray::filter, filter_stub)]
#[kani::stub(MergeSkaArray::save, save_stub)]
fn weed_wrapper_contract() {
    let n: usize = kani::any();
    kani::assume(n <= 4);
    let k: usize = kani::any();
    kani::assume(k >= 5 && k <= 63);
    let rc: bool = kani::any();
    let min_freq: f64 = kani::any();
    kani::assume(min_freq >= 0.0 && min_freq <= 1.0);
    let with_file: bool = kani::any();
    let reverse: bool = kani::any();
    let famb: bool = kani::any();
    let mask: bool = kani::any();
    let igc: bool = kani::any();
    let fc: u8 = kani::any();
    kani::assume(fc < 4);
    let ft = match fc {
        0 => FilterType::NoFilter,
        1 => FilterType::NoConst,
        2 => FilterType::NoAmbig,
        _ => FilterType::NoAmbigOrConst,
    };
    let mut arr = MergeSkaArray::<u64> {
        k,
        rc,
        names: Vec::new(),
        split_kmers: Vec::new(),
        variants: Array2::zeros((0, n)),
        variant_count: Vec::new(),
        ska_version: String::new(),
        k_bits: 64,
    };
    let file = if with_file { Some(String::new()) } else { None };
    crate::generic_modes::weed(&mut arr, &file, reverse, min_freq, famb, &ft, mask, igc, "");
    unsafe {
        // weed set: from the file, with the table's own k and strand mode, nothing masked
        assert!(NEW_CALLS == if with_file { 1 } else { 0 });
        assert!(WEED_CALLS == if with_file { 1 } else { 0 });
        if with_file {
            let (nk, nrc, na, nr) = NEW_ARGS;
            assert!(nk == k && nrc == rc && !na && !nr);
            assert!(WEED_REVERSE == reverse);
        }
        // the filter step
        let t = (n as f64 * min_freq).floor();
        let want_filter = t > 0.0 || fc != 0 || mask || igc;
        assert!(FILTER_CALLS == if want_filter { 1 } else { 0 });
        if want_filter {
            let (th, a, f, m, g, u) = FILTER_REC;
            assert!(th as f64 == t);
            assert!(a == famb && f == fc && m == mask && g == igc && u);
        }
        assert!(SAVE_CALLS == 1);
        // order: weed, then filter, then save
        let mut expect = [0u8; 4];
        let mut e = 0;
        if with_file {
            expect[e] = 1;
            e += 1;
        }
        if want_filter {
            expect[e] = 2;
            e += 1;
        }
        expect[e] = 3;
        e += 1;
        assert!(NORD == e);
        assert!(ORDER[0] == expect[0] && ORDER[1] == expect[1] && ORDER[2] == expect[2]);
    }
    kani::cover!(with_file && reverse && fc == 0 && !mask && !igc);
    kani::cover!(!with_file);
}
