// BOUNDED Kani check (never counted as proved) of io_utils::name_from_line: the sample name on a line
// of the names file of `ska delete -f` is its first whitespace-separated field — so a line holding just a name is
// accepted (C08: "one per line in a names file") and a blank line is not.  Lines of 2 (quick) / 3 (thorough) bytes over
// {a, b, space, tab}.  The function is copied verbatim by vx (specs/nameline_k.vx) into a dependency-free crate.
use super::*;

fn line_case<const N: usize>() {
    let sel: [u8; N] = kani::any();
    let al = [b'a', b'b', b' ', b'\t'];
    let mut bytes = [0u8; N];
    let mut i = 0;
    while i < N {
        kani::assume(sel[i] < 4);
        bytes[i] = al[sel[i] as usize];
        i += 1;
    }
    let line = std::str::from_utf8(&bytes).unwrap();
    let got = name_from_line(line);
    // expected: the first maximal run of non-blank bytes
    let mut s = 0;
    while s < N && (bytes[s] == b' ' || bytes[s] == b'\t') {
        s += 1;
    }
    let mut e = s;
    while e < N && !(bytes[e] == b' ' || bytes[e] == b'\t') {
        e += 1;
    }
    match got {
        None => assert!(s == N),
        Some(g) => {
            assert!(s < N);
            let gb = g.as_bytes();
            assert!(gb.len() == e - s);
            let mut j = 0;
            while j < gb.len() {
                assert!(gb[j] == bytes[s + j]);
                j += 1;
            }
        }
    }
    kani::cover!(s == N);
    kani::cover!(s == 0 && e == N);
}

#[kani::proof]
#[kani::unwind(8)]
fn bounded_name_from_line_len2() {
    line_case::<2>();
}

#[kani::proof]
#[kani::unwind(8)]
fn bounded_name_from_line_len3() {
    line_case::<3>();
}
