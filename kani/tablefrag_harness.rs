// Kani harnesses over the lifted table-application fragments (specs/tablefrag_k.vx): loop-free over all bytes,
// complete.  They check the glue side of the table proofs: the index expression `base*256 + b` that
// SkaDict::add_to_dict uses, what is stored for a first observation, and the strand correction of RefSka::map.
use super::*;

fn mask_of(b: u8) -> u8 {
    match b {
        b'A' => 1, b'C' => 2, b'G' => 4, b'T' => 8, b'R' => 5, b'Y' => 10, b'S' => 6, b'W' => 9,
        b'K' => 12, b'M' => 3, b'B' => 14, b'D' => 13, b'H' => 11, b'V' => 7, b'N' => 15,
        _ => 0,
    }
}
fn code_bit(c: u8) -> u8 {
    match c { 0 => 1, 1 => 2, 2 => 8, _ => 4 }
}
fn comp_mask(m: u8) -> u8 {
    ((m & 1) << 3) | ((m & 8) >> 3) | ((m & 2) << 1) | ((m & 4) >> 1)
}

// adding an observed base to a stored (upper-case) code: in bounds for every stored byte, and the stored set grows
// by exactly that base
#[kani::proof]
fn add_to_dict_modify_is_union() {
    let old: u8 = kani::any();
    let base: u8 = kani::any();
    kani::assume(base < 4);
    let mut cell = old;
    iupac_modify(&mut cell, base); // must not index out of bounds for any stored byte
    if mask_of(old) != 0 {
        assert!(mask_of(cell) == (mask_of(old) | code_bit(base)));
    }
    kani::cover!(mask_of(old) != 0 && cell == b'N');
}

// the first observation stores the plain base
#[kani::proof]
fn add_to_dict_insert_is_singleton() {
    let base: u8 = kani::any();
    kani::assume(base < 4);
    assert!(mask_of(iupac_insert(base)) == code_bit(base));
}

// any sequence of two observations gives the same stored code in either order (what the dictionary holds does not
// depend on the order of records / strands)
#[kani::proof]
fn add_to_dict_two_observations_commute() {
    let b1: u8 = kani::any();
    let b2: u8 = kani::any();
    kani::assume(b1 < 4 && b2 < 4);
    let mut x = iupac_insert(b1);
    iupac_modify(&mut x, b2);
    let mut y = iupac_insert(b2);
    iupac_modify(&mut y, b1);
    assert!(x == y);
    assert!(mask_of(x) == (code_bit(b1) | code_bit(b2)));
}

// RefSka::map: a reference k-mer on the reverse strand shows the complemented code, one on the forward strand the
// stored code itself; '-' (absent) stays '-'
#[kani::proof]
fn map_strand_correction() {
    let x: u8 = kani::any();
    let rc: bool = kani::any();
    let r = strand_correct(&x, &RefKmerRc { rc });
    if !rc {
        assert!(r == x);
    } else if mask_of(x) != 0 {
        assert!(mask_of(r) == comp_mask(mask_of(x)));
    } else if x == b'-' {
        assert!(r == b'-');
    }
    kani::cover!(rc && mask_of(x) == 5);
}
