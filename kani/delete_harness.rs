// Kani checks on the second half of MergeSkaArray::delete_samples, lifted verbatim by vx (specs/delete_k.vx) into the
// scratch copy of the real crate: String, Vec and ndarray are real, update_counts is replaced by a recording stub.
// BOUNDED (never counted as proved): one split k-mer x the three samples a, b, c with symbolic bases; the index lists
// named by the harnesses.  Serves C08.
//   delete_columns_*   the table keeps exactly the columns of the kept samples, in order, with their bases; the names
//                      are replaced by the kept names; update_counts(false) runs once afterwards (it drops the k-mers
//                      found only in deleted samples: C06's bounded check of update_counts)
// The first half (which samples are deleted, the refusals) is kani/deletenames_harness.rs.
use super::*;
use ndarray::arr2;

include!(concat!(env!("CARGO_MANIFEST_DIR"), "/src/verif_frag_deletefrag.rs"));

static mut UPD_CALLS: u32 = 0;
static mut UPD_FLAG: bool = true;
static mut UPD_NAMES_LEN: usize = 0;
static mut UPD_COLS: usize = 0;

fn update_counts_stub<IntT: for<'a> UInt<'a>>(s: &mut MergeSkaArray<IntT>, filter_ambig_as_missing: bool) {
    unsafe {
        UPD_CALLS += 1;
        UPD_FLAG = filter_ambig_as_missing;
        UPD_NAMES_LEN = s.names.len();
        UPD_COLS = s.variants.ncols();
    }
}

fn three_samples(cells: [[u8; 3]; 1]) -> MergeSkaArray<u64> {
    MergeSkaArray::<u64> {
        k: 31,
        rc: true,
        names: vec![String::from("a"), String::from("b"), String::from("c")],
        split_kmers: vec![7],
        variants: arr2(&cells),
        variant_count: vec![3],
        ska_version: String::new(),
        k_bits: 64,
    }
}

fn is_name(s: &String, c: u8) -> bool {
    let b = s.as_bytes();
    b.len() == 1 && b[0] == c
}

// ---- columns

fn columns_case(idx_list: Vec<usize>, kept: [usize; 2], nkept: usize) {
    let cells: [[u8; 3]; 1] = kani::any();
    let mut arr = three_samples(cells);
    let mut new_names = Vec::new();
    let mut i = 0;
    while i < nkept {
        new_names.push(String::from(["a", "b", "c"][kept[i]]));
        i += 1;
    }
    delete_columns(&mut arr, idx_list, new_names);
    assert!(arr.variants.nrows() == 1 && arr.variants.ncols() == nkept);
    let mut i = 0;
    while i < nkept {
        assert!(arr.variants[[0, i]] == cells[0][kept[i]]);
        assert!(is_name(&arr.names[i], b'a' + kept[i] as u8));
        i += 1;
    }
    assert!(arr.names.len() == nkept);
    assert!(arr.split_kmers.len() == 1 && arr.split_kmers[0] == 7 && arr.k == 31 && arr.rc);
    unsafe {
        // update_counts(false) once, after names and table were replaced
        assert!(UPD_CALLS == 1 && !UPD_FLAG);
        assert!(UPD_NAMES_LEN == nkept && UPD_COLS == nkept);
    }
    kani::cover!(true, "end of harness reached");
}

#[kani::proof]
#[kani::unwind(6)]
#[kani::stub(MergeSkaArray::update_counts, update_counts_stub)]
fn delete_columns_middle() {
    columns_case(vec![1], [0, 2], 2);
}

#[kani::proof]
#[kani::unwind(6)]
#[kani::stub(MergeSkaArray::update_counts, update_counts_stub)]
fn delete_columns_first() {
    columns_case(vec![0], [1, 2], 2);
}

#[kani::proof]
#[kani::unwind(6)]
#[kani::stub(MergeSkaArray::update_counts, update_counts_stub)]
fn delete_columns_last() {
    columns_case(vec![2], [0, 1], 2);
}

#[kani::proof]
#[kani::unwind(6)]
#[kani::stub(MergeSkaArray::update_counts, update_counts_stub)]
fn delete_columns_outer_two() {
    columns_case(vec![0, 2], [1, 0], 1);
}

#[kani::proof]
#[kani::unwind(6)]
#[kani::stub(MergeSkaArray::update_counts, update_counts_stub)]
fn delete_columns_first_two() {
    columns_case(vec![0, 1], [2, 0], 1);
}
