// Kani harness on the real `generic_modes::apply_filters` (the wrapper between the CLI and MergeSkaArray::filter).
// `filter` itself does not fit in Kani (DESIGN §2), so it is replaced by a recording stub and the harness checks the
// wrapper's contract: filter is called exactly once with threshold == ceil(samples x min_freq) (f64 arithmetic as
// the code does it), every flag passed through unchanged, update_kmers == false.  Loop-free over all flag values,
// all four filter types, samples 0..=4 and every f64 min_freq in [0,1]: complete for those sample counts.  Serves C06.
use super::*;
use crate::cli::FilterType;

static mut CALLS: u32 = 0;
static mut REC: (usize, bool, u8, bool, bool, bool) = (0, false, 0, false, false, false);

fn ft_code(f: &FilterType) -> u8 {
    match f {
        FilterType::NoFilter => 0,
        FilterType::NoConst => 1,
        FilterType::NoAmbig => 2,
        FilterType::NoAmbigOrConst => 3,
    }
}

fn filter_stub<IntT: for<'a> UInt<'a>>(
    _s: &mut MergeSkaArray<IntT>,
    min_count: usize,
    filter_ambig_as_missing: bool,
    filter: &FilterType,
    mask_ambig: bool,
    ignore_const_gaps: bool,
    update_kmers: bool,
) -> i32 {
    unsafe {
        CALLS += 1;
        REC = (min_count, filter_ambig_as_missing, ft_code(filter), mask_ambig, ignore_const_gaps, update_kmers);
    }
    7
}

#[kani::proof]
#[kani::unwind(6)]
#[kani::stub(MergeSkaArray::filter, filter_stub)]
fn apply_filters_passes_arguments() {
    let n: usize = kani::any();
    kani::assume(n <= 4);
    let min_freq: f64 = kani::any();
    kani::assume(min_freq >= 0.0 && min_freq <= 1.0);
    let famb: bool = kani::any();
    let mask: bool = kani::any();
    let igc: bool = kani::any();
    let fc: u8 = kani::any();
    kani::assume(fc < 4);
    let ft = match fc {
        0 => FilterType::NoFilter,
        1 => FilterType::NoConst,
        2 => FilterType::NoAmbig,
        _ => FilterType::NoAmbigOrConst,
    };
    let mut arr = MergeSkaArray::<u64> {
        k: 31,
        rc: true,
        names: Vec::new(),
        split_kmers: Vec::new(),
        variants: Array2::zeros((0, n)),
        variant_count: Vec::new(),
        ska_version: String::new(),
        k_bits: 64,
    };
    let r = crate::generic_modes::apply_filters(&mut arr, min_freq, famb, &ft, mask, igc);
    unsafe {
        assert!(CALLS == 1);
        assert!(r == 7);
        let (t, a, f, m, g, u) = REC;
        assert!(a == famb && f == fc && m == mask && g == igc && !u);
        // t is the ceiling of the f64 product: the smallest count that is >= samples x min_freq
        let prod = n as f64 * min_freq;
        assert!(t as f64 >= prod);
        assert!(t == 0 || ((t - 1) as f64) < prod);
    }
    kani::cover!(n == 4 && famb);
}
