// helper attached to src/merge_ska_array.rs (private fields of MergeSkaArray are reachable here): arrays recognisable
// by a marker in their k field, and the stand-in for MergeSkaArray::load (file I/O) used by the `mergewrap` harness
use super::*;

pub(crate) fn marked_array<IntT: for<'a> UInt<'a>>(mark: usize) -> MergeSkaArray<IntT> {
    MergeSkaArray::<IntT> {
        k: mark,
        rc: true,
        names: Vec::new(),
        split_kmers: Vec::new(),
        variants: Array2::zeros((0, 0)),
        variant_count: Vec::new(),
        ska_version: String::new(),
        k_bits: 64,
    }
}

pub(crate) fn marker<IntT: for<'a> UInt<'a>>(a: &MergeSkaArray<IntT>) -> usize {
    a.k
}

// markers: load("b") gives 2, load("c") 3, any other name 9; load("x") fails (a file that cannot be read with this
// integer width, e.g. a k > 31 file when the first one was k <= 31)
pub(crate) fn load_stub<IntT: for<'a> UInt<'a>>(filename: &str) -> Result<MergeSkaArray<IntT>, Box<dyn std::error::Error>> {
    let b = filename.as_bytes();
    if b.len() == 1 && b[0] == b'x' {
        return Err(Box::new(std::fmt::Error));
    }
    let mark = if b.len() == 1 && b[0] == b'b' {
        2
    } else if b.len() == 1 && b[0] == b'c' {
        3
    } else {
        9
    };
    Ok(marked_array(mark))
}

/// an array with `n` (unnamed) samples and no rows — for wrapper harnesses that only need nsamples()
pub(crate) fn blank_array<IntT: for<'a> UInt<'a>>(n: usize) -> MergeSkaArray<IntT> {
    let mut names = Vec::new();
    let mut i = 0;
    while i < n {
        names.push(String::new());
        i += 1;
    }
    MergeSkaArray::<IntT> {
        k: 31,
        rc: true,
        names,
        split_kmers: Vec::new(),
        variants: Array2::zeros((0, n)),
        variant_count: Vec::new(),
        ska_version: String::new(),
        k_bits: 64,
    }
}
