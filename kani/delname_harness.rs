// Kani checks on where `ska delete` takes its sample names from (C08: "names given on the command line or one per
// line in a names file").  Attached to src/lib.rs.
//   delete_arm_uses_the_name_list_reader   the first statements of the Delete arm of main(), lifted verbatim by vx
//       (specs/delname_k.vx): the names handed on are exactly the list returned by io_utils::get_name_list(file_list,
//       names), called once with the arm's own arguments; the `ska build` file-list reader get_input_list (which
//       refuses a line with a single field) is not consulted.  Both readers are replaced (file I/O) by the recording
//       functions below — by name resolution inside this module, so the harness does not depend on either of them
//       existing in the tree.  Complete for the fragment (no data-dependent branch).
// The per-line rule of the names file is checked in kani/nameline_harness.rs (attached to src/io_utils.rs).
use super::*;

include!(concat!(env!("CARGO_MANIFEST_DIR"), "/src/verif_frag_delname.rs"));

static mut NAME_LIST_CALLS: u32 = 0;
static mut NAME_LIST_ARGS_OK: bool = false;
static mut INPUT_LIST_CALLS: u32 = 0;

fn get_name_list(file_list: &Option<String>, names: &Option<Vec<String>>) -> Vec<String> {
    unsafe {
        NAME_LIST_CALLS += 1;
        NAME_LIST_ARGS_OK = match file_list {
            Some(f) => f.as_bytes().len() == 1 && f.as_bytes()[0] == b'f',
            None => false,
        } && names.is_none();
    }
    vec![String::from("p"), String::from("q")]
}

fn get_input_list(_file_list: &Option<String>, _seq_files: &Option<Vec<String>>) -> Vec<crate::merge_ska_dict::InputFastx> {
    unsafe {
        INPUT_LIST_CALLS += 1;
    }
    Vec::new()
}

#[kani::proof]
#[kani::unwind(6)]
fn delete_arm_uses_the_name_list_reader() {
    let file_list = Some(String::from("f"));
    let names: Option<Vec<String>> = None;
    let got = delete_arm_names(&file_list, &names);
    unsafe {
        assert!(NAME_LIST_CALLS == 1 && NAME_LIST_ARGS_OK);
        assert!(INPUT_LIST_CALLS == 0);
    }
    assert!(got.len() == 2);
    assert!(got[0].as_bytes().len() == 1 && got[0].as_bytes()[0] == b'p');
    assert!(got[1].as_bytes().len() == 1 && got[1].as_bytes()[0] == b'q');
    kani::cover!(true, "end of harness reached");
}
