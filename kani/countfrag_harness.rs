// Kani harnesses on KmerFilter::filter and the bloom-filter functions it calls, copied verbatim from
// src/ska_dict/bloom_filter.rs by vx (specs/countfrag_k.vx) into a dependency-free crate in which `HashMap` names a
// 3-slot association list with hashbrown's entry()/and_modify()/or_insert() interface.  Serves C12:
//   filter_one_call            one call on an arbitrary filter state (one bloom word, a count table projected onto the
//                              key of the call and one other key, any min_count, any hash): the k-mer is passed on
//                              (Ordering::Equal) when this accepted observation brings its count to min_count and not while the count is below it;
//                              the table entry of the key becomes old+1 (2 on first entry: the bloom filter held the
//                              first observation), every other entry is unchanged, the bloom word gains exactly the fingerprint.
//                              Loop-free, all inputs symbolic: complete for one call, relative to the stand-in map.
//   filter_sequence_from_empty the same k-mer observed 8 times on a fresh filter, min_count 0..=7: it is passed on at
//                              observation number min_count and at none before it (min_count 0/1: at every one) — the
//                              statement of the property for a collision-free k-mer.
use super::*;

fn any_filter(min_count: u16) -> KmerFilter {
    let b0: u64 = kani::any();
    let mut counts: HashMap<u64, u16> = HashMap::new();
    counts.k = [kani::any(), kani::any(), 0];
    counts.v = [kani::any(), kani::any(), 0];
    counts.n = kani::any();
    kani::assume(counts.n <= 2);
    kani::assume(counts.n < 2 || counts.k[0] != counts.k[1]);
    // one bloom word: every key is located in it (reduce(_, 1) == 0), so the harness need not recompute the
    // location (two copies of the 64x64 multiplier made the query take 8-20 min; the frame over other words is
    // the Verus contract of bloom_add_and_check, unit bloom)
    KmerFilter { buf_size: 1, buffer: vec![b0], counts, min_count }
}

#[kani::proof]
fn filter_one_call() {
    let min_count: u16 = kani::any();
    let mut f = any_filter(min_count);
    let hash: u64 = kani::any();
    let other: u64 = kani::any();
    kani::assume(other != hash);
    let kmer = SplitKmer::<u64> { hash, marker: core::marker::PhantomData };

    let fp = KmerFilter::fingerprint(hash);
    let old_buf = f.buffer[0];
    let held = old_buf & fp == fp;
    let old_c = f.counts.get(&hash);
    let old_o = f.counts.get(&other);
    let old_n = f.counts.n;

    let r = f.filter(&kmer);

    assert!(f.min_count == min_count && f.buf_size == 1 && f.buffer.len() == 1);
    // the other key's count is never touched
    assert!(f.counts.get(&other) == old_o);
    // the bloom word only ever gains the fingerprint
    if min_count <= 1 {
        assert!(r == Ordering::Equal);
        assert!(f.buffer[0] == old_buf && f.counts.get(&hash) == old_c && f.counts.n == old_n);
    } else {
        assert!(f.buffer[0] == old_buf | fp);
        if min_count == 2 {
            // second accepted observation <=> the bloom filter already held the first
            assert!((r == Ordering::Equal) == held);
            assert!(f.counts.get(&hash) == old_c && f.counts.n == old_n);
        } else if !held {
            // first observation: recorded in the bloom filter only
            assert!(r != Ordering::Equal);
            assert!(f.counts.get(&hash) == old_c && f.counts.n == old_n);
        } else {
            let new: u16 = match old_c { Some(c) => c.saturating_add(1), None => 2 };
            assert!(f.counts.get(&hash) == Some(new));
            assert!(f.counts.n == old_n + if old_c.is_none() { 1 } else { 0 });
            // passed on when the count is reached, never before it (what the code returns once the count is
            // exceeded is not the property's business: adding a k-mer again is idempotent)
            if new == min_count { assert!(r == Ordering::Equal); }
            if new < min_count { assert!(r != Ordering::Equal); }
        }
    }
    kani::cover!(min_count > 2 && held && old_c.is_none());
    kani::cover!(min_count > 2 && held && old_c.is_some() && r == Ordering::Equal);
    kani::cover!(min_count == 2 && held);
    kani::cover!(min_count > 2 && !held);
}

#[kani::proof]
#[kani::unwind(10)]
fn filter_sequence_from_empty() {
    let min_count: u16 = kani::any();
    kani::assume(min_count <= 7);
    let mut f = KmerFilter { buf_size: 1, buffer: vec![0], counts: HashMap::new(), min_count };
    let hash: u64 = kani::any();
    let kmer = SplitKmer::<u64> { hash, marker: core::marker::PhantomData };
    let mut i: u16 = 1;
    while i <= 8 {
        let r = f.filter(&kmer);
        if min_count <= 1 {
            assert!(r == Ordering::Equal);
        } else {
            // never before the count is reached, always when it is reached (later observations may pass it on
            // again — min_count 2 does — which changes nothing: adding is idempotent)
            if i < min_count { assert!(r != Ordering::Equal); }
            if i == min_count { assert!(r == Ordering::Equal); }
        }
        i += 1;
    }
    kani::cover!(min_count == 7);
}
