// Kani harness on the real `u8_to_base` (src/ska_ref.rs): every byte. Complete.  Serves C05:
// REF is the reference base, N if it is not A/C/G/T; ambiguity codes in a sample column map to N.
use super::*;

#[kani::proof]
fn u8_to_base_all_bytes() {
    let b: u8 = kani::any();
    let got = u8_to_base(b);
    let want = if b == b'A' {
        Base::A
    } else if b == b'C' {
        Base::C
    } else if b == b'G' {
        Base::G
    } else if b == b'T' {
        Base::T
    } else {
        Base::N
    };
    assert!(got == want);
    kani::cover!(got == Base::N);
    kani::cover!(got == Base::T);
}
