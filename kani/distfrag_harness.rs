// Kani check on the head of generic_modes::distance and on its call of MergeSkaArray::distance, lifted verbatim by vx
// (specs/distfrag_k.vx) as two fragments into the scratch copy of the real crate (the thread-pool set-up between them
// is left out).  Modular: `apply_filters` is re-bound (by name resolution in this module) to its CONTRACT on an
// abstract table — a row is removed iff it is present in fewer than ceil(samples x min_freq) samples or fails the site
// filter; the number removed is returned (that contract is what C06's checks establish for the real apply_filters /
// filter) — and MergeSkaArray::distance is replaced by a stub recording what it is given.
// Contract (C14, files without ambiguity codes, --allow-ambiguous off): "with --min-freq f, k-mers present in fewer than
// ceil(f x samples) samples are ignored and both figures are computed over the remaining k-mers only":
//   * the table handed to MergeSkaArray::distance holds exactly the variable rows that reach the threshold;
//   * the `constant` handed to it — the sites at which every pair matches, added to every denominator — is the number
//     of CONSTANT rows that reach the threshold: rows below the threshold are ignored, not counted as matches.
// Three samples, three rows with symbolic presence counts and constancy, every f64 min_freq in [0,1].  Complete for the
// fragment over this abstract table (loop-free apart from the 3-row loops); BOUNDED by the number of rows.
use super::*;
use crate::merge_ska_array::verif_kani_mergehelp::blank_array;

#[derive(Clone, Copy)]
struct Row {
    present: bool,
    count: usize,
    constant: bool,
}
static mut ROWS: [Row; 3] = [Row { present: false, count: 0, constant: false }; 3];
static mut DIST_CALLS: u32 = 0;
static mut DIST_CONSTANT: f64 = -1.0;
static mut DIST_ROWS: [bool; 3] = [false; 3];

/// the contract of generic_modes::apply_filters on the abstract table
fn apply_filters<IntT: for<'a> UInt<'a>>(ska_array: &mut MergeSkaArray<IntT>, min_freq: f64, _filter_ambig_as_missing: bool, filter: &FilterType,
                                         _ambig_mask: bool, _ignore_const_gaps: bool) -> i32 {
    let threshold = f64::ceil(ska_array.nsamples() as f64 * min_freq) as usize;
    let mut removed = 0;
    let mut i = 0;
    while i < 3 {
        unsafe {
            if ROWS[i].present {
                let passes_site_filter = match filter {
                    FilterType::NoFilter | FilterType::NoAmbig => true,
                    FilterType::NoConst | FilterType::NoAmbigOrConst => !ROWS[i].constant,
                };
                if !(ROWS[i].count >= threshold && passes_site_filter) {
                    ROWS[i].present = false;
                    removed += 1;
                }
            }
        }
        i += 1;
    }
    removed
}

fn distance_stub<IntT: for<'a> UInt<'a>>(_s: &MergeSkaArray<IntT>, constant: f64) -> Vec<Vec<(f64, f64)>> {
    unsafe {
        DIST_CALLS += 1;
        DIST_CONSTANT = constant;
        let mut i = 0;
        while i < 3 {
            DIST_ROWS[i] = ROWS[i].present;
            i += 1;
        }
    }
    Vec::new()
}

include!(concat!(env!("CARGO_MANIFEST_DIR"), "/src/verif_frag_distfrag.rs"));

#[kani::proof]
#[kani::unwind(6)]
#[kani::stub(MergeSkaArray::distance, distance_stub)]
fn distance_ignores_rare_kmers() {
    let mut rows0 = [Row { present: true, count: 0, constant: false }; 3];
    let mut i = 0;
    while i < 3 {
        let c: usize = kani::any();
        kani::assume(c >= 1 && c <= 3);
        let k: bool = kani::any();
        // a constant row has the same base in every sample
        kani::assume(!k || c == 3);
        rows0[i].count = c;
        rows0[i].constant = k;
        i += 1;
    }
    unsafe {
        ROWS = rows0;
    }
    let min_freq: f64 = kani::any();
    kani::assume(min_freq >= 0.0 && min_freq <= 1.0);
    let mut arr = blank_array::<u64>(3);

    let constant = distance_head(&mut arr, min_freq, false);
    let _ = distance_call(&mut arr, constant);

    let threshold = f64::ceil(3.0 * min_freq) as usize;
    let mut want_constant = 0;
    let mut i = 0;
    unsafe {
        assert!(DIST_CALLS == 1);
        while i < 3 {
            let frequent = rows0[i].count >= threshold;
            assert!(DIST_ROWS[i] == (frequent && !rows0[i].constant));
            if frequent && rows0[i].constant {
                want_constant += 1;
            }
            i += 1;
        }
        assert!(DIST_CONSTANT == want_constant as f64);
    }
    kani::cover!(threshold == 2 && rows0[0].count == 1 && rows0[1].constant);
    kani::cover!(threshold == 0);
    kani::cover!(threshold == 3 && want_constant == 2);
}
