// BOUNDED Kani checks (never counted as proved) of the two ndarray kernels that Verus cannot take.
// Attached to src/merge_ska_array.rs of the scratch copy; private fields and fns are reachable.
//   variant_dist   : columns of length <= 3 over {A,C,G,T,-}      (C14)
//   update_counts  : 2 rows x 2 samples, symbolic bytes and flags   (C06)
use super::*;
use ndarray::{arr1, arr2};

fn any_sym() -> u8 {
    let c: u8 = kani::any();
    kani::assume(c < 5);
    [b'A', b'C', b'G', b'T', b'-'][c as usize]
}

// distance = #positions where both present and different; mismatch proportion = one-sided / (both + one-sided +
// constant) (0 if that is 0); symmetric; identical columns -> (0, 0); proportion in [0,1].  BOUND: the column length.
macro_rules! variant_dist_len {
    ($name:ident; $n:expr, $unw:expr) => {
        #[kani::proof]
        #[kani::unwind($unw)]
        fn $name() {
            const N: usize = $n;
            let mut a = [b'A'; N];
            let mut b = [b'A'; N];
            let mut t = 0;
            while t < N {
                a[t] = any_sym();
                b[t] = any_sym();
                t += 1;
            }
            let c: u8 = kani::any();
            kani::assume(c < 4);
            let constant = c as f64;
            let s1 = arr1(&a);
            let s2 = arr1(&b);
            let (d, m) = MergeSkaArray::<u64>::variant_dist(&s1.view(), &s2.view(), constant);
            let (d2, m2) = MergeSkaArray::<u64>::variant_dist(&s2.view(), &s1.view(), constant);
            let mut both_diff = 0u32;
            let mut both = 0u32;
            let mut one = 0u32;
            let mut same = true;
            let mut i = 0;
            while i < N {
                let x = a[i];
                let y = b[i];
                if x != y {
                    same = false;
                }
                if x != b'-' && y != b'-' {
                    both += 1;
                    if x != y {
                        both_diff += 1;
                    }
                } else if (x == b'-') != (y == b'-') {
                    one += 1;
                }
                i += 1;
            }
            assert!(d == both_diff as f64);
            let denom = both as f64 + one as f64 + constant;
            if denom == 0.0 {
                assert!(m == 0.0);
            } else {
                assert!(m == one as f64 / denom);
            }
            assert!(d == d2 && m == m2);
            assert!(m >= 0.0 && m <= 1.0);
            if same {
                assert!(d == 0.0 && m == 0.0);
            }
            kani::cover!(both_diff == N as u32);
            kani::cover!(one == N as u32);
        }
    };
}

variant_dist_len!(bounded_variant_dist_len3; 3, 6);
variant_dist_len!(bounded_variant_dist_len4; 4, 7);

fn count_cell(b: u8, ambig_as_missing: bool) -> bool {
    b != b'-' && (!ambig_as_missing || !is_ambiguous(b))
}

// update_counts keeps exactly the rows with a positive recount, in order, row-aligned in all three containers,
// and stores the recount.  BOUND: 2 rows x 2 samples.
#[kani::proof]
#[kani::unwind(4)]
fn bounded_update_counts_2x2() {
    let cells: [[u8; 2]; 2] = kani::any();
    let flag: bool = kani::any();
    let k0: u64 = kani::any();
    let k1: u64 = kani::any();
    let mut arr = MergeSkaArray::<u64> {
        k: 31,
        rc: true,
        names: vec![String::new(), String::new()],
        split_kmers: vec![k0, k1],
        variants: arr2(&cells),
        variant_count: vec![kani::any(), kani::any()],
        ska_version: String::new(),
        k_bits: 64,
    };
    arr.update_counts(flag);
    let c0 = count_cell(cells[0][0], flag) as usize + count_cell(cells[0][1], flag) as usize;
    let c1 = count_cell(cells[1][0], flag) as usize + count_cell(cells[1][1], flag) as usize;
    let n = (c0 > 0) as usize + (c1 > 0) as usize;
    assert!(arr.split_kmers.len() == n);
    assert!(arr.variant_count.len() == n);
    assert!(arr.variants.nrows() == n);
    assert!(arr.variants.ncols() == 2);
    let mut r = 0;
    if c0 > 0 {
        assert!(arr.split_kmers[r] == k0 && arr.variant_count[r] == c0);
        assert!(arr.variants[[r, 0]] == cells[0][0] && arr.variants[[r, 1]] == cells[0][1]);
        r += 1;
    }
    if c1 > 0 {
        assert!(arr.split_kmers[r] == k1 && arr.variant_count[r] == c1);
        assert!(arr.variants[[r, 0]] == cells[1][0] && arr.variants[[r, 1]] == cells[1][1]);
    }
    kani::cover!(n == 0);
    kani::cover!(n == 2);
}

// the same contract on one row x two samples (the smallest table): cheap enough for the quick tier
#[kani::proof]
#[kani::unwind(4)]
fn bounded_update_counts_1x2() {
    let cells: [[u8; 2]; 1] = kani::any();
    let flag: bool = kani::any();
    let k0: u64 = kani::any();
    let mut arr = MergeSkaArray::<u64> {
        k: 31,
        rc: true,
        names: vec![String::new(), String::new()],
        split_kmers: vec![k0],
        variants: arr2(&cells),
        variant_count: vec![kani::any()],
        ska_version: String::new(),
        k_bits: 64,
    };
    arr.update_counts(flag);
    let c0 = count_cell(cells[0][0], flag) as usize + count_cell(cells[0][1], flag) as usize;
    let n = (c0 > 0) as usize;
    assert!(arr.split_kmers.len() == n);
    assert!(arr.variant_count.len() == n);
    assert!(arr.variants.nrows() == n);
    if c0 > 0 {
        assert!(arr.split_kmers[0] == k0 && arr.variant_count[0] == c0);
        assert!(arr.variants[[0, 0]] == cells[0][0] && arr.variants[[0, 1]] == cells[0][1]);
    }
    kani::cover!(n == 0);
    kani::cover!(n == 1 && c0 == 1);
}
