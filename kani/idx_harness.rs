// BOUNDED Kani checks (3 contigs of length 1..=2, and 1 contig of length 1..=3; never counted as proved) of
// IdxCheck::new + iter on the real code, independent of how the two functions are written (the Verus unit `idxcheck`
// proves them for all references in their current shape; these harnesses still decide when one is re-implemented
// with adapters Verus cannot take).  Serves C05: column i of the concatenated alignment is (contig c, position p)
// with offset(c) + p == i.
use super::*;

fn check(lens: &[usize]) {
    let mut refs: Vec<Vec<u8>> = Vec::new();
    let mut c = 0;
    while c < lens.len() {
        refs.push(vec![b'A'; lens[c]]);
        c += 1;
    }
    let ic = IdxCheck::new(&refs);
    // end coordinates are the prefix sums
    let mut sum = 0;
    let mut j = 0;
    while j < lens.len() {
        sum += lens[j];
        assert!(ic.end_coor[j] == sum);
        j += 1;
    }
    assert!(ic.end_coor.len() == lens.len());
    // every column maps to the right contig / position
    let mut it = ic.iter();
    let mut col = 0;
    let mut cc = 0;
    let mut pp = 0;
    while col < sum {
        let got = it.next();
        assert!(got == Some((cc, pp)));
        pp += 1;
        if pp == lens[cc] {
            pp = 0;
            cc += 1;
        }
        col += 1;
    }
}

#[kani::proof]
#[kani::unwind(8)]
fn bounded_idxcheck_3contigs() {
    let lens: [usize; 3] = kani::any();
    kani::assume(lens[0] >= 1 && lens[0] <= 2 && lens[1] >= 1 && lens[1] <= 2 && lens[2] >= 1 && lens[2] <= 2);
    check(&lens);
    kani::cover!(lens[0] + lens[1] + lens[2] == 6);
}

#[kani::proof]
#[kani::unwind(5)]
fn bounded_idxcheck_1contig() {
    let lens: [usize; 1] = kani::any();
    kani::assume(lens[0] >= 1 && lens[0] <= 3);
    check(&lens);
}
