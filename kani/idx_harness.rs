// BOUNDED Kani check (at most 4 contigs of length 1..=3; never counted as proved) of IdxCheck::new + iter on the real
// code, independent of how the two functions are written (the Verus unit `idxcheck` proves them for all references
// in their current shape; this harness still decides when one is re-implemented with adapters Verus cannot take).
// Serves C05: column i of the concatenated alignment is (contig c, position p) with offset(c) + p == i.
use super::*;

#[kani::proof]
#[kani::unwind(14)]
fn bounded_idxcheck_4x3() {
    let n: usize = kani::any();
    kani::assume(n >= 1 && n <= 4);
    let lens: [usize; 4] = kani::any();
    kani::assume(lens[0] >= 1 && lens[0] <= 3 && lens[1] >= 1 && lens[1] <= 3 && lens[2] >= 1 && lens[2] <= 3 && lens[3] >= 1 && lens[3] <= 3);
    let mut refs: Vec<Vec<u8>> = Vec::new();
    let mut c = 0;
    while c < n {
        refs.push(vec![b'A'; lens[c]]);
        c += 1;
    }
    let ic = IdxCheck::new(&refs);
    // end coordinates are the prefix sums
    let mut sum = 0;
    let mut j = 0;
    while j < n {
        sum += lens[j];
        assert!(ic.end_coor[j] == sum);
        j += 1;
    }
    assert!(ic.end_coor.len() == n);
    // every column maps to the right contig / position, and the iterator stops exactly at the end
    let mut it = ic.iter();
    let mut col = 0;
    let mut cc = 0;
    let mut pp = 0;
    while col < sum {
        let got = it.next();
        assert!(got == Some((cc, pp)));
        pp += 1;
        if pp == lens[cc] {
            pp = 0;
            cc += 1;
        }
        col += 1;
    }
    kani::cover!(n == 4 && sum == 12);
    kani::cover!(n == 1);
}
