// Kani harness on the read-filter condition of SkaDict::add_file_kmers, lifted verbatim by vx (specs/readfilter_k.vx)
// and compiled inside the real crate, with KmerFilter::filter replaced by a recording stub (the count table is
// hashbrown code that Kani cannot run).  Contract checked, for both occurrences of the condition:
//   * FASTA (is_reads == false): the k-mer is always added and the counting filter is never consulted;
//   * reads: the counting filter is consulted exactly when the window's middle base passes the quality rule
//     (a window that fails the rule must not count towards --min-count), and the k-mer is added iff the rule
//     passes and the filter says the count is reached.
// One read of length k = 5 with symbolic quality bytes, symbolic min_qual, all three quality rules: loop bounds are
// k, so unwind(8) is complete for this k.  Serves C12.
use super::*;
use std::borrow::Cow;
use std::cmp::Ordering;
use crate::QualFilter;

include!(concat!(env!("CARGO_MANIFEST_DIR"), "/src/verif_frag_readfilter.rs"));

static mut CALLS: u32 = 0;
static mut ANSWER: bool = false;

fn filter_stub<IntT: for<'a> UInt<'a>>(_s: &mut KmerFilter, _kmer: &SplitKmer<IntT>) -> Ordering {
    unsafe {
        CALLS += 1;
        if ANSWER {
            Ordering::Equal
        } else {
            Ordering::Less
        }
    }
}

fn run(first: bool) {
    let seq = *b"ACGTA";
    let qual: [u8; 5] = kani::any();
    kani::assume(qual[0] >= 33 && qual[1] >= 33 && qual[2] >= 33 && qual[3] >= 33 && qual[4] >= 33);
    kani::assume(qual[0] <= 80 && qual[1] <= 80 && qual[2] <= 80 && qual[3] <= 80 && qual[4] <= 80);
    let min_qual: u8 = kani::any();
    kani::assume(min_qual <= 45);
    let qf_c: u8 = kani::any();
    kani::assume(qf_c < 3);
    let qf = match qf_c {
        0 => QualFilter::NoFilter,
        1 => QualFilter::Middle,
        _ => QualFilter::Strict,
    };
    let is_reads: bool = kani::any();
    let answer: bool = kani::any();
    unsafe {
        ANSWER = answer;
        CALLS = 0;
    }
    let it = SplitKmer::<u64>::new(Cow::Borrowed(&seq[..]), 5, Some(&qual[..]), 5, true, min_qual, qf, true);
    // under the strict rule the window may not exist at all
    if let Some(kmer_it) = it {
        let mut dict = SkaDict::<u64>::default();
        let got = if first { read_cond_first(&mut dict, &kmer_it, is_reads) } else { read_cond_next(&mut dict, &kmer_it, is_reads) };
        let middle_ok = match qf {
            QualFilter::NoFilter => true,
            _ => qual[2] - 33 >= min_qual,
        };
        let calls = unsafe { CALLS };
        if !is_reads {
            assert!(got);
            assert!(calls == 0);
        } else {
            assert!(calls == if middle_ok { 1 } else { 0 });
            assert!(got == (middle_ok && answer));
        }
        kani::cover!(is_reads && !middle_ok);
        kani::cover!(is_reads && middle_ok && got);
    }
}

#[kani::proof]
#[kani::unwind(8)]
#[kani::stub(KmerFilter::filter, filter_stub)]
fn read_condition_first_window() {
    run(true);
}

#[kani::proof]
#[kani::unwind(8)]
#[kani::stub(KmerFilter::filter, filter_stub)]
fn read_condition_later_windows() {
    run(false);
}
