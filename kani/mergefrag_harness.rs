// BOUNDED Kani checks (never counted as proved) of MergeSkaDict::extend / merge / append, copied verbatim into a
// fragment crate by vx (specs/mergefrag_k.vx) with hashbrown::HashMap re-bound to an association list and String to
// a small integer, std Vec to an inline array of <= 4 elements (all with the interface of the original).  Bound: at
// most 2 split k-mers per dictionary with symbolic values, at most 2 samples per side (extend) or in total (merge,
// append), in the shapes named by the harnesses (<samples>s<k-mers>k).  Serves C07.
//
// Abstract view of a dictionary (`Spec`): names and a partial map k-mer -> row of `n` bytes, 0 = missing, kept as
// plain arrays next to the heap value handed to the real code.  Every postcondition is checked at ONE symbolic k-mer
// `key` (< 4) and ONE symbolic column `col`: universally quantified by the solver, and far cheaper for CBMC than
// loops over all keys and columns.
use super::*;

#[derive(Clone, Copy)]
struct Spec {
    n: usize,
    nk: usize,
    keys: [u64; 2],
    rows: [[u8; 2]; 2],
    names: [u8; 2],
}

impl Spec {
    /// The shape (n samples, nk k-mers) is concrete per harness; the k-mers (distinct, < 4), bases, names, k and the
    /// strand flag are symbolic.
    fn any(n: usize, nk: usize) -> Spec {
        let keys: [u64; 2] = [kani::any(), kani::any()];
        kani::assume(keys[0] < 4 && keys[1] < 4 && keys[0] != keys[1]);
        Spec { n, nk, keys, rows: kani::any(), names: kani::any() }
    }
    fn has(&self, k: u64) -> bool {
        (self.nk >= 1 && self.keys[0] == k) || (self.nk >= 2 && self.keys[1] == k)
    }
    /// cell `col` of the row of `k`, 0 when the k-mer is absent
    fn cell(&self, k: u64, col: usize) -> u8 {
        if self.nk >= 1 && self.keys[0] == k {
            self.rows[0][col]
        } else if self.nk >= 2 && self.keys[1] == k {
            self.rows[1][col]
        } else {
            0
        }
    }
    fn table(&self) -> HashMap<u64, Vec<u8>> {
        let mut v = Vec::new();
        let mut r = 0;
        while r < self.nk {
            let mut row = Vec::new();
            let mut i = 0;
            while i < self.n {
                row.push(self.rows[r][i]);
                i += 1;
            }
            v.push((self.keys[r], row));
            r += 1;
        }
        HashMap { v }
    }
    fn names(&self) -> Vec<Name> {
        let mut v = Vec::new();
        let mut i = 0;
        while i < self.n {
            v.push(Name(self.names[i]));
            i += 1;
        }
        v
    }
    fn mdict(&self, k: usize, rc: bool) -> MergeSkaDict<u64> {
        MergeSkaDict { k, rc, n_samples: self.n, names: self.names(), split_kmers: self.table() }
    }
    fn names_blank(&self) -> bool {
        (self.n < 1 || self.names[0] == 0) && (self.n < 2 || self.names[1] == 0)
    }
}

fn count_key(m: &HashMap<u64, Vec<u8>>, k: u64) -> usize {
    let mut c = 0;
    let mut i = 0;
    while i < m.v.len() {
        if m.v[i].0 == k {
            c += 1;
        }
        i += 1;
    }
    c
}

fn probe() -> u64 {
    let key: u64 = kani::any();
    kani::assume(key < 4);
    key
}

// ---------------------------------------------------------------------------------------------------------
// extend (ska merge): samples of `other` are appended after those of `self`; a k-mer missing on one side gets 0s

fn extend_case(na: usize, ka: usize, nb: usize, kb: usize) {
    let sa = Spec::any(na, ka);
    let sb = Spec::any(nb, kb);
    let k: usize = kani::any();
    let rc: bool = kani::any();
    let mut a = sa.mdict(k, rc);
    let mut b = sb.mdict(k, rc);

    a.extend(&mut b);

    assert!(a.k == k && a.rc == rc);
    assert!(a.n_samples == na + nb);
    // samples of all inputs in argument order
    assert!(a.names.len() == na + nb);
    let col: usize = kani::any();
    kani::assume(col < na + nb);
    assert!(a.names[col].0 == if col < na { sa.names[col] } else { sb.names[col - na] });
    // the table: exactly the union of the k-mers, each once; every row = self's cells then other's cells, 0 where absent
    let key = probe();
    let want = sa.has(key) || sb.has(key);
    assert!(count_key(&a.split_kmers, key) == want as usize);
    match a.split_kmers.get(&key) {
        None => assert!(!want),
        Some(row) => {
            assert!(want);
            assert!(row.len() == na + nb);
            assert!(row[col] == if col < na { sa.cell(key, col) } else { sb.cell(key, col - na) });
        }
    }
    kani::cover!(true, "end of harness reached");
}

#[kani::proof]
#[kani::unwind(6)]
fn bounded_extend_2s2k_2s2k() {
    extend_case(2, 2, 2, 2);
}

#[kani::proof]
#[kani::unwind(6)]
fn bounded_extend_1s2k_2s1k() {
    extend_case(1, 2, 2, 1);
}

#[kani::proof]
#[kani::unwind(6)]
fn bounded_extend_2s0k_1s2k() {
    extend_case(2, 0, 1, 2);
}

#[kani::proof]
#[kani::unwind(6)]
fn bounded_extend_1s1k_1s0k() {
    extend_case(1, 1, 1, 0);
}

// refusal: different k or strand mode => the call does not return (panic! == end of path in this crate)
#[kani::proof]
#[kani::unwind(4)]
fn extend_refuses_mismatch() {
    let mut a = Spec::any(1, 1).mdict(kani::any(), kani::any());
    let mut b = Spec::any(1, 1).mdict(kani::any(), kani::any());
    kani::assume(a.k != b.k || a.rc != b.rc);
    a.extend(&mut b);
    assert!(false, "extend returned although k or the strand mode differ");
}

// the same harness without the mismatch must reach its end (guard against a vacuous refusal proof)
#[kani::proof]
#[kani::unwind(4)]
fn extend_returns_on_match() {
    let mut a = Spec::any(1, 1).mdict(kani::any(), kani::any());
    let mut b = Spec::any(1, 1).mdict(kani::any(), kani::any());
    kani::assume(a.k == b.k && a.rc == b.rc);
    a.extend(&mut b);
    kani::cover!(true, "extend returns when k and strand mode agree");
}

// ---------------------------------------------------------------------------------------------------------
// merge (ska build, joining two halves over the same `n_samples` slots with disjoint sample support)
// precondition from the call sites (multi_append / parallel_append): a dictionary without k-mers has no names yet
// (SkaDict::new refuses a sample without k-mers)

fn merge_case(n: usize, ka: usize, kb: usize) {
    let sa = Spec::any(n, ka);
    let sb = Spec::any(n, kb);
    kani::assume(sa.nk > 0 || sa.names_blank());
    kani::assume(sb.nk > 0 || sb.names_blank());
    let k: usize = kani::any();
    let rc: bool = kani::any();
    let mut a = sa.mdict(k, rc);
    let mut b = sb.mdict(k, rc);

    a.merge(&mut b);

    assert!(a.k == k && a.rc == rc && a.n_samples == n);
    assert!(a.names.len() == n);
    let col: usize = kani::any();
    kani::assume(col < n);
    assert!(a.names[col].0 == if sa.names[col] == 0 { sb.names[col] } else { sa.names[col] });
    let key = probe();
    let want = sa.has(key) || sb.has(key);
    assert!(count_key(&a.split_kmers, key) == want as usize);
    match a.split_kmers.get(&key) {
        None => assert!(!want),
        Some(row) => {
            assert!(want);
            assert!(row.len() == n);
            assert!(row[col] == sa.cell(key, col) | sb.cell(key, col));
        }
    }
    kani::cover!(true, "end of harness reached");
}

#[kani::proof]
#[kani::unwind(15)]
fn bounded_merge_2s_2k_2k() {
    merge_case(2, 2, 2);
}

#[kani::proof]
#[kani::unwind(15)]
fn bounded_merge_2s_0k_1k() {
    merge_case(2, 0, 1);
}

#[kani::proof]
#[kani::unwind(15)]
fn bounded_merge_2s_1k_0k() {
    merge_case(2, 1, 0);
}

#[kani::proof]
#[kani::unwind(15)]
fn merge_refuses_mismatch() {
    let mut a = Spec::any(1, 1).mdict(kani::any(), kani::any());
    let mut b = Spec::any(1, 1).mdict(kani::any(), kani::any());
    kani::assume(a.k != b.k || a.rc != b.rc);
    a.merge(&mut b);
    assert!(false, "merge returned although k or the strand mode differ");
}

// ---------------------------------------------------------------------------------------------------------
// append (ska build, one sample): column idx of the table becomes the sample's dictionary, its name is stored

fn append_case(n: usize, ka: usize, nk: usize) {
    let sa = Spec::any(n, ka);
    let idx: usize = kani::any();
    kani::assume(idx < n);
    // call-site precondition: slot idx is still unused
    kani::assume(sa.rows[0][idx] == 0 && sa.rows[1][idx] == 0);
    let k: usize = kani::any();
    let rc: bool = kani::any();
    let mut a = sa.mdict(k, rc);
    // the sample's own dictionary: nk (<= 2) distinct k-mers
    let skeys: [u64; 2] = [kani::any(), kani::any()];
    kani::assume(skeys[0] < 4 && skeys[1] < 4 && skeys[0] != skeys[1]);
    let sbase: [u8; 2] = kani::any();
    let mut sv = Vec::new();
    let mut r = 0;
    while r < nk {
        sv.push((skeys[r], sbase[r]));
        r += 1;
    }
    let name: u8 = kani::any();
    let d = SkaDict { k, rc, sample_idx: idx, name: Name(name), split_kmers: HashMap { v: sv }, kmer_filter: () };

    a.append(&d);

    assert!(a.k == k && a.rc == rc && a.n_samples == n && a.names.len() == n);
    let col: usize = kani::any();
    kani::assume(col < n);
    assert!(a.names[col].0 == if col == idx { name } else { sa.names[col] });
    let key = probe();
    let in_d = (nk >= 1 && skeys[0] == key) || (nk >= 2 && skeys[1] == key);
    let d_base = if nk >= 1 && skeys[0] == key { sbase[0] } else if nk >= 2 && skeys[1] == key { sbase[1] } else { 0 };
    let want = sa.has(key) || in_d;
    assert!(count_key(&a.split_kmers, key) == want as usize);
    match a.split_kmers.get(&key) {
        None => assert!(!want),
        Some(row) => {
            assert!(want);
            assert!(row.len() == n);
            assert!(row[col] == if col == idx { d_base } else { sa.cell(key, col) });
        }
    }
    kani::cover!(true, "end of harness reached");
}

#[kani::proof]
#[kani::unwind(6)]
fn bounded_append_2s_2k_2k() {
    append_case(2, 2, 2);
}

#[kani::proof]
#[kani::unwind(6)]
fn bounded_append_2s_0k_2k() {
    append_case(2, 0, 2);
}

#[kani::proof]
#[kani::unwind(4)]
fn append_refuses_mismatch() {
    let mut a = Spec::any(1, 1).mdict(kani::any(), kani::any());
    let d = SkaDict { k: kani::any(), rc: kani::any(), sample_idx: 0, name: Name(1), split_kmers: HashMap::new(), kmer_filter: () };
    kani::assume(d.k != a.k || d.rc != a.rc);
    a.append(&d);
    assert!(false, "append returned although k or the strand mode differ");
}
