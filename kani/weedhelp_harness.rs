// helper attached to src/ska_ref.rs (private fields of RefSka are reachable here): the stub that stands in for
// RefSka::new (file I/O) in the `weedwrap` harness, and the record of what it was called with
use super::*;

pub(crate) static mut NEW_CALLS: u32 = 0;
pub(crate) static mut NEW_ARGS: (usize, bool, bool, bool) = (0, false, false, false);

pub(crate) fn refska_new_stub<IntT: for<'a> UInt<'a>>(k: usize, _filename: &str, rc: bool, ambig_mask: bool, repeat_mask: bool) -> RefSka<IntT> {
    unsafe {
        NEW_CALLS += 1;
        NEW_ARGS = (k, rc, ambig_mask, repeat_mask);
    }
    RefSka {
        k,
        split_kmer_pos: Vec::new(),
        ambig_mask,
        chrom_names: Vec::new(),
        seq: Vec::new(),
        repeat_coors: Vec::new(),
        mapped_pos: Vec::new(),
        mapped_variants: Array2::zeros((0, 0)),
        mapped_names: Vec::new(),
    }
}
