// helper attached to src/ska_ref.rs (private fields of RefSka are reachable here): the stub that stands in for
// RefSka::new (file I/O) in the `weedwrap` harness, and the record of what it was called with
use super::*;

pub(crate) static mut NEW_CALLS: u32 = 0;
pub(crate) static mut NEW_ARGS: (usize, bool, bool, bool) = (0, false, false, false);

pub(crate) fn refska_new_stub<IntT: for<'a> UInt<'a>>(k: usize, _filename: &str, rc: bool, ambig_mask: bool, repeat_mask: bool) -> RefSka<IntT> {
    unsafe {
        NEW_CALLS += 1;
        NEW_ARGS = (k, rc, ambig_mask, repeat_mask);
    }
    RefSka {
        k,
        split_kmer_pos: Vec::new(),
        ambig_mask,
        chrom_names: Vec::new(),
        seq: Vec::new(),
        repeat_coors: Vec::new(),
        mapped_pos: Vec::new(),
        mapped_variants: Array2::zeros((0, 0)),
        mapped_names: Vec::new(),
    }
}

/// a RefSka whose split k-mer list holds exactly `kmers`, in that order (used by the `weedset` harnesses)
pub(crate) fn refska_with_kmers<IntT: for<'a> UInt<'a>>(k: usize, kmers: &[IntT]) -> RefSka<IntT> {
    let mut split_kmer_pos = Vec::new();
    let mut i = 0;
    while i < kmers.len() {
        split_kmer_pos.push(RefKmer { kmer: kmers[i], base: 0, pos: i, chrom: 0, rc: false });
        i += 1;
    }
    RefSka {
        k,
        split_kmer_pos,
        ambig_mask: false,
        chrom_names: Vec::new(),
        seq: Vec::new(),
        repeat_coors: Vec::new(),
        mapped_pos: Vec::new(),
        mapped_variants: Array2::zeros((0, 0)),
        mapped_names: Vec::new(),
    }
}
