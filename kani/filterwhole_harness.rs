// BOUNDED Kani check (never counted as proved) of the WHOLE body of MergeSkaArray::filter, lifted verbatim by vx
// (specs/filterwhole_k.vx) into the scratch copy of the real crate.  Inside this module `HashSet` is a duplicate-free
// vector (R3 by name resolution); ndarray (axis_iter, push_row, mapv_inplace), the zip over (counts, rows, k-mers) and
// the assignments after the loop are the real code; update_counts is replaced by a recording stub.
// Bound: ONE split k-mer x 2 samples, bases over 8 representative symbols; stored count and threshold <= 3; all four
// site filters and every flag.  Contract (C06) — what the row-step and arm checks leave open, namely the glue:
//   * update_counts(true) runs first exactly when --filter-ambig-as-missing is set, and not otherwise; when the
//     object is kept (update_kmers) it is followed, after the filtering, by update_counts(false): the counts left in
//     the object are the plain ones (C10: a later command sees counts that depend on the bases only);
//   * the row survives iff its stored count reaches the threshold and it passes the site filter; the returned number
//     of removed rows is 1 - survived;
//   * a surviving row keeps its bases (ambiguous ones replaced by N exactly when --ambig-mask), its count and its
//     k-mer; the k-mer list is replaced only when update_kmers (it keeps its old content otherwise);
//   * names, k and strand mode are untouched.
use super::*;
use crate::cli::FilterType;
use ndarray::arr2;

/// R3 stand-in for hashbrown::HashSet: a set as a duplicate-free vector with the same interface
pub struct HashSet<T> {
    v: Vec<T>,
}
impl<T: PartialEq> HashSet<T> {
    pub fn new() -> Self {
        HashSet { v: Vec::with_capacity(4) }
    }
    pub fn insert(&mut self, x: T) -> bool {
        let mut i = 0;
        while i < self.v.len() {
            if self.v[i] == x {
                return false;
            }
            i += 1;
        }
        self.v.push(x);
        true
    }
    pub fn len(&self) -> usize {
        self.v.len()
    }
}
impl<T> IntoIterator for HashSet<T> {
    type Item = T;
    type IntoIter = std::vec::IntoIter<T>;
    fn into_iter(self) -> Self::IntoIter {
        self.v.into_iter()
    }
}

include!(concat!(env!("CARGO_MANIFEST_DIR"), "/src/verif_frag_filterwhole.rs"));

// calls of update_counts: flag of each call, and whether the first one saw the still unfiltered table
static mut UPD_CALLS: usize = 0;
static mut UPD_FLAGS: [bool; 3] = [false; 3];
static mut UPD_BEFORE_FILTERING: bool = false;
static mut UPD_LAST_SAW_KMERS_ALIGNED: bool = false;

fn update_counts_stub<IntT: for<'a> UInt<'a>>(s: &mut MergeSkaArray<IntT>, filter_ambig_as_missing: bool) {
    unsafe {
        if UPD_CALLS == 0 {
            // still the unfiltered table: one row
            UPD_BEFORE_FILTERING = s.variants.nrows() == 1 && s.variant_count.len() == 1;
        }
        if UPD_CALLS < 3 {
            UPD_FLAGS[UPD_CALLS] = filter_ambig_as_missing;
        }
        UPD_CALLS += 1;
        UPD_LAST_SAW_KMERS_ALIGNED = s.split_kmers.len() == s.variants.nrows() && s.variant_count.len() == s.variants.nrows();
    }
}

fn any_sym() -> u8 {
    let c: u8 = kani::any();
    kani::assume(c < 8);
    [b'A', b'C', b'a', b'T', b'-', b'R', b'N', b'U'][c as usize]
}

fn spec_ambig(b: u8) -> bool {
    !matches!(b | 0x20, b'a' | b'c' | b'g' | b't' | b'u' | b'-')
}

/// the site filters on a row of two cells, as the property states them
fn spec_keep(ft: u8, x: u8, y: u8, igc: bool) -> bool {
    match ft {
        0 => true,
        // at least two different symbols, gaps not counting when --no-gap-only-sites
        1 => x != y && (!igc || (x != b'-' && y != b'-')),
        2 => !spec_ambig(x) && !spec_ambig(y),
        _ => {
            let w = |c: u8| {
                let l = c | 0x20;
                (l == b'a' || l == b'c' || l == b'g' || l == b't' || l == b'u' || (l == b'-' && !igc)) as usize
            };
            let weight = w(x) + if y != x { w(y) } else { 0 };
            weight > 1
        }
    }
}

#[kani::proof]
#[kani::unwind(6)]
#[kani::stub(MergeSkaArray::update_counts, update_counts_stub)]
fn bounded_filter_whole_1x2() {
    let cells: [[u8; 2]; 1] = [[any_sym(), any_sym()]];
    let k0: u64 = kani::any();
    let count: usize = kani::any();
    let min_count: usize = kani::any();
    kani::assume(count <= 3 && min_count <= 3);
    let famb: bool = kani::any();
    let mask: bool = kani::any();
    let igc: bool = kani::any();
    let upd: bool = kani::any();
    let ftc: u8 = kani::any();
    kani::assume(ftc < 4);
    let ft = match ftc {
        0 => FilterType::NoFilter,
        1 => FilterType::NoConst,
        2 => FilterType::NoAmbig,
        _ => FilterType::NoAmbigOrConst,
    };
    let mut arr = MergeSkaArray::<u64> {
        k: 31,
        rc: kani::any(),
        names: vec![String::new(), String::new()],
        split_kmers: vec![k0],
        variants: arr2(&cells),
        variant_count: vec![count],
        ska_version: String::new(),
        k_bits: 64,
    };
    let rc0 = arr.rc;

    let removed = filter_whole(&mut arr, min_count, famb, &ft, mask, igc, upd);

    unsafe {
        // counting ambiguous bases as missing is for this filter only: update_counts(true) first iff the flag is set;
        // and if the object is kept afterwards (update_kmers: it may be saved, as `ska weed` does) the plain counts are
        // restored by a final update_counts(false) on the filtered, aligned table — the stored counts stay a function
        // of the stored bases (C10)
        let want_calls = if famb { if upd { 2 } else { 1 } } else { 0 };
        assert!(UPD_CALLS == want_calls);
        if famb {
            assert!(UPD_FLAGS[0] && UPD_BEFORE_FILTERING);
            if upd {
                assert!(!UPD_FLAGS[1] && UPD_LAST_SAW_KMERS_ALIGNED);
            }
        }
    }
    let keep = count >= min_count && spec_keep(ftc, cells[0][0], cells[0][1], igc);
    assert!(removed == if keep { 0 } else { 1 });
    let n = keep as usize;
    assert!(arr.variants.nrows() == n && arr.variants.ncols() == 2 && arr.variant_count.len() == n);
    if upd {
        assert!(arr.split_kmers.len() == n);
    } else {
        assert!(arr.split_kmers.len() == 1 && arr.split_kmers[0] == k0);
    }
    if keep {
        assert!(arr.variant_count[0] == count);
        if upd {
            assert!(arr.split_kmers[0] == k0);
        }
        let mut j = 0;
        while j < 2 {
            let want = if mask && spec_ambig(cells[0][j]) { b'N' } else { cells[0][j] };
            assert!(arr.variants[[0, j]] == want);
            j += 1;
        }
    }
    assert!(arr.names.len() == 2 && arr.k == 31 && arr.rc == rc0);
    kani::cover!(keep && ftc == 3 && mask);
    kani::cover!(!keep && count >= min_count && ftc == 1 && igc);
    kani::cover!(keep && !upd);
    kani::cover!(famb && !keep);
}
