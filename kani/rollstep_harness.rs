// Kani harnesses on the real GENERIC SplitKmer<IntT> (src/ska_dict/split_kmer.rs) through the real UInt trait.
// They close the gap opened by monomorphising in the Verus unit `kmer` (rewrite R1): the same step contract —
// "after one roll the stored arms / middle base / reverse-complement fields equal those of a freshly built
// iterator on the shifted window" — is checked here on the un-extracted generic code.
// Per k the loops run at most k(+1) times: unwind(k+3) with unwinding assertions is complete for that k.
use super::*;

fn any_base() -> u8 {
    let c: u8 = kani::any();
    kani::assume(c < 4);
    [b'A', b'C', b'T', b'G'][c as usize]
}

macro_rules! rollstep {
    ($name:ident; $t:ty, $k:expr, $unw:expr) => {
        #[kani::proof]
        #[kani::unwind($unw)]
        fn $name() {
            const K: usize = $k;
            let mut w = [b'A'; K + 1];
            let mut i = 0;
            while i < K + 1 {
                w[i] = any_base();
                i += 1;
            }
            let rc: bool = kani::any();
            let mut it = SplitKmer::<$t>::new(Cow::Borrowed(&w[..]), K + 1, None, K, rc, 0, QualFilter::NoFilter, false).unwrap();
            assert!(it.get_middle_pos() == (K - 1) / 2);
            let next = it.get_next_kmer();
            assert!(next.is_some());
            let fresh = SplitKmer::<$t>::new(Cow::Borrowed(&w[1..]), K, None, K, rc, 0, QualFilter::NoFilter, false).unwrap();
            assert!(it.upper == fresh.upper && it.lower == fresh.lower && it.middle_base == fresh.middle_base);
            if rc {
                assert!(it.rc_upper == fresh.rc_upper && it.rc_lower == fresh.rc_lower && it.rc_middle_base == fresh.rc_middle_base);
            }
            assert!(next.unwrap() == fresh.get_curr_kmer());
            assert!(it.get_middle_pos() == 1 + (K - 1) / 2);
            // the record is exhausted now: the window ending at the record end was the last one
            assert!(it.get_next_kmer().is_none());
            kani::cover!(rc);
            kani::cover!(!rc);
        }
    };
}

rollstep!(rollstep_u64_k5; u64, 5, 9);
rollstep!(thorough_rollstep_u64_k31; u64, 31, 35);
rollstep!(thorough_rollstep_u128_k33; u128, 33, 37);
rollstep!(thorough_rollstep_u64_k7; u64, 7, 11);
rollstep!(thorough_rollstep_u64_k15; u64, 15, 19);
rollstep!(rollstep_u128_k5; u128, 5, 9);
rollstep!(thorough_rollstep_u128_k31; u128, 31, 35);
rollstep!(thorough_rollstep_u128_k63; u128, 63, 67);

// an N in the middle of the record: the iterator restarts behind it exactly like a fresh iterator on the suffix
#[kani::proof]
#[kani::unwind(16)]
fn rollstep_skip_n_u64_k5() {
    const K: usize = 5;
    let mut w = [b'A'; 2 * K + 1];
    let mut i = 0;
    while i < 2 * K + 1 {
        w[i] = any_base();
        i += 1;
    }
    w[K] = b'N';
    let rc: bool = kani::any();
    let mut it = SplitKmer::<u64>::new(Cow::Borrowed(&w[..]), 2 * K + 1, None, K, rc, 0, QualFilter::NoFilter, false).unwrap();
    let next = it.get_next_kmer();
    assert!(next.is_some());
    let fresh = SplitKmer::<u64>::new(Cow::Borrowed(&w[K + 1..]), K, None, K, rc, 0, QualFilter::NoFilter, false).unwrap();
    assert!(next.unwrap() == fresh.get_curr_kmer());
    assert!(it.get_middle_pos() == K + 1 + (K - 1) / 2);
    assert!(it.get_next_kmer().is_none());
}
