// ---------- pack / code vocabulary over code sequences (values < 4) ----------
pub open spec fn codes_ok(c: Seq<u8>) -> bool { forall|i: int| 0 <= i < c.len() ==> #[trigger] c[i] < 4 }

pub open spec fn pack(c: Seq<u8>) -> ${W}
    decreases c.len()
{
    if c.len() == 0 { 0 } else { (pack(c.drop_last()) << 2) | (c.last() as ${W}) }
}

pub open spec fn mask(n: int) -> ${W} { if n >= ${BITS} { ${ALLONES} } else { ((1${W} << (n as ${W})) - 1) as ${W} } }

// pack(c) fits in 2*len bits
pub proof fn lemma_pack_bound(c: Seq<u8>)
    requires codes_ok(c), c.len() <= ${KMAX}
    ensures pack(c) & !mask(2 * (c.len() as int)) == 0
    decreases c.len()
{
    if c.len() == 0 {
        assert(0${W} & !mask(0) == 0) by(bit_vector);
    } else {
        lemma_pack_bound(c.drop_last());
        let p = pack(c.drop_last());
        let x = c.last() as ${W};
        let n = (2 * (c.len() - 1)) as ${W};
        let n2 = (2 * c.len()) as ${W};
        assert(n2 == n + 2);
        assert(mask(2 * (c.len() - 1)) == ((1${W} << n) - 1) as ${W});
        assert(mask(2 * (c.len() as int)) == ((1${W} << n2) - 1) as ${W});
        assert(((p << 2) | x) & !(((1${W} << n2) - 1) as ${W}) == 0) by(bit_vector)
            requires p & !(((1${W} << n) - 1) as ${W}) == 0, x < 4, n2 == n + 2, n <= ${B4};
    }
}

// pack(a ++ [x]) by definition
pub proof fn lemma_pack_push(a: Seq<u8>, x: u8)
    ensures pack(a.push(x)) == (pack(a) << 2) | (x as ${W})
{
    assert(a.push(x).drop_last() =~= a);
}

// dropping the first code masks off the top code
pub proof fn lemma_pack_drop_first(c: Seq<u8>)
    requires codes_ok(c), 1 <= c.len() <= ${KMAX}
    ensures pack(c.drop_first()) == pack(c) & mask(2 * (c.len() - 1))
    decreases c.len()
{
    if c.len() == 1 {
        assert(c.drop_first() =~= Seq::<u8>::empty());
        assert(c.drop_last() =~= Seq::<u8>::empty());
        let x = c.last() as ${W};
        assert(((0${W} << 2) | x) & (((1${W} << 0${W}) - 1) as ${W}) == 0) by(bit_vector);
    } else {
        let d = c.drop_last();
        lemma_pack_drop_first(d);
        lemma_pack_bound(d);
        assert(c.drop_first().drop_last() =~= d.drop_first());
        assert(c.drop_first().last() == c.last());
        let p = pack(d);
        let x = c.last() as ${W};
        let n = (2 * (c.len() - 2)) as ${W};
        let n2 = (2 * (c.len() - 1)) as ${W};
        assert((((p & (((1${W} << n) - 1) as ${W})) << 2) | x) == ((p << 2) | x) & (((1${W} << n2) - 1) as ${W})) by(bit_vector)
            requires x < 4, n2 == n + 2, n <= ${B6};
    }
}

// the code at position j (from the right)
pub proof fn lemma_code_at(c: Seq<u8>, j: int)
    requires codes_ok(c), c.len() <= ${KMAX}, 0 <= j < c.len()
    ensures (pack(c) >> ((2 * j) as ${W})) & 3 == c[c.len() - 1 - j] as ${W}
    decreases c.len()
{
    let p = pack(c.drop_last());
    let x = c.last() as ${W};
    if j == 0 {
        assert((((p << 2) | x) >> 0${W}) & 3 == x) by(bit_vector) requires x < 4;
    } else {
        lemma_code_at(c.drop_last(), j - 1);
        let s = (2 * j) as ${W};
        let s1 = (2 * (j - 1)) as ${W};
        assert((((p << 2) | x) >> s) & 3 == (p >> s1) & 3) by(bit_vector) requires x < 4, s == s1 + 2, s <= ${B2};
    }
}

pub proof fn lemma_pack_drop_last(c: Seq<u8>)
    requires codes_ok(c), 1 <= c.len() <= ${KMAX}
    ensures pack(c.drop_last()) == pack(c) >> 2
{
    lemma_pack_bound(c.drop_last());
    let p = pack(c.drop_last());
    let x = c.last() as ${W};
    let n = (2 * (c.len() - 1)) as ${W};
    assert(((p << 2) | x) >> 2 == p) by(bit_vector) requires x < 4, p & !(((1${W} << n) - 1) as ${W}) == 0, n <= ${B4};
}

// prepending a code
pub proof fn lemma_pack_cons(x: u8, t: Seq<u8>)
    requires codes_ok(t), x < 4, t.len() <= ${KM1}
    ensures pack(seq![x] + t) == ((x as ${W}) << ((2 * t.len()) as ${W})) | pack(t)
    decreases t.len()
{
    if t.len() == 0 {
        assert(seq![x] + t =~= seq![x]);
        assert(seq![x].drop_last() =~= Seq::<u8>::empty());
        let xx = x as ${W};
        assert(pack(Seq::<u8>::empty()) == 0);
        assert(pack(seq![x]) == (pack(seq![x].drop_last()) << 2) | (seq![x].last() as ${W}));
        assert(pack(t) == 0);
        assert(((0${W} << 2) | xx) == (xx << 0${W}) | 0${W}) by(bit_vector);
    } else {
        let c = seq![x] + t;
        assert(c.drop_last() =~= seq![x] + t.drop_last());
        assert(c.last() == t.last());
        lemma_pack_cons(x, t.drop_last());
        let xx = x as ${W};
        let y = t.last() as ${W};
        let q = pack(t.drop_last());
        let n = (2 * (t.len() - 1)) as ${W};
        let n2 = (2 * t.len()) as ${W};
        assert(pack(c) == (pack(c.drop_last()) << 2) | (c.last() as ${W}));
        assert(pack(t) == (q << 2) | y);
        assert(pack(c.drop_last()) == (xx << n) | q);
        assert(((((xx << n) | q) << 2) | y) == (xx << n2) | ((q << 2) | y)) by(bit_vector) requires n2 == n + 2, n <= ${B6};
    }
}


// ---------- value determined by its codes ----------
pub proof fn lemma_ext(v: ${W}, c: Seq<u8>)
    requires
        codes_ok(c), c.len() <= ${KMAX},
        v & !mask(2 * (c.len() as int)) == 0,
        forall|j: int| 0 <= j < c.len() ==> (v >> ((2 * j) as ${W})) & 3 == #[trigger] c[c.len() - 1 - j] as ${W},
    ensures v == pack(c)
    decreases c.len()
{
    if c.len() == 0 {
        assert(v & !(((1${W} << 0${W}) - 1) as ${W}) == 0 ==> v == 0) by(bit_vector);
    } else {
        let d = c.drop_last();
        let w = v >> 2;
        let n = (2 * c.len()) as ${W};
        let n1 = (2 * (c.len() - 1)) as ${W};
        assert(w & !(((1${W} << n1) - 1) as ${W}) == 0) by(bit_vector)
            requires v & !(((1${W} << n) - 1) as ${W}) == 0, n == n1 + 2, n <= ${B2}, w == v >> 2;
        assert forall|j: int| 0 <= j < d.len() implies (w >> ((2 * j) as ${W})) & 3 == #[trigger] d[d.len() - 1 - j] as ${W} by {
            let s = (2 * j) as ${W};
            let s1 = (2 * (j + 1)) as ${W};
            assert(((v >> 2) >> s) & 3 == (v >> s1) & 3) by(bit_vector) requires s1 == s + 2, s1 <= ${B2};
            assert(c[c.len() - 1 - (j + 1)] == d[d.len() - 1 - j]);
        }
        lemma_ext(w, d);
        assert((v >> 0${W}) & 3 == c[c.len() - 1 - 0] as ${W});
        let x = c.last() as ${W};
        assert(v == ((v >> 2) << 2) | x) by(bit_vector) requires (v >> 0${W}) & 3 == x;
    }
}

pub open spec fn rcc(c: Seq<u8>) -> Seq<u8> { Seq::new(c.len(), |j: int| c[c.len() - 1 - j] ^ 2) }
