// ---------- shared vocabulary of the k-mer engine (DESIGN §4); W = ${W} ----------
pub assume_specification [usize::div_ceil] (a: usize, b: usize) -> (r: usize)
    requires b != 0
    ensures r as int == (a as int + b as int - 1) / (b as int);

pub open spec fn enc(b: u8) -> u8 { (b >> 1) & 0x3 }
pub open spec fn s_valid_base(b: u8) -> bool { b & 0xF != 14 }
pub open spec fn codes(s: Seq<u8>) -> Seq<u8> { Seq::new(s.len(), |i: int| enc(s[i])) }

pub proof fn lemma_enc_lt4(b: u8)
    ensures enc(b) < 4
{
    assert(((b >> 1) & 0x3) < 4) by(bit_vector);
}

pub proof fn lemma_codes_ok(s: Seq<u8>)
    ensures codes_ok(codes(s))
{
    assert forall|i: int| 0 <= i < codes(s).len() implies #[trigger] codes(s)[i] < 4 by {
        lemma_enc_lt4(s[i]);
    }
}

// quality rule, exactly as the property states it: "quality >= --min-qual"
pub open spec fn qual_ok(qual: Option<&[u8]>, min_qual: u8, p: int) -> bool {
    match qual { Some(q) => (q@[p] - 33) >= min_qual, None => true }
}

pub open spec fn qual_wf(qual: Option<&[u8]>, n: int) -> bool {
    qual.is_some() ==> qual.unwrap()@.len() == n && (forall|p: int| 0 <= p < n ==> #[trigger] qual.unwrap()@[p] >= 33)
}

pub open spec fn pos_ok(seq: Seq<u8>, qual: Option<&[u8]>, strict: bool, min_qual: u8, p: int) -> bool {
    s_valid_base(seq[p]) && (!strict || qual_ok(qual, min_qual, p))
}

// window of k consecutive acceptable positions starting at p
pub open spec fn window_ok(seq: Seq<u8>, qual: Option<&[u8]>, strict: bool, min_qual: u8, p: int, k: int) -> bool {
    forall|q: int| p <= q < p + k ==> pos_ok(seq, qual, strict, min_qual, q)
}

// the reverse-complement shuffle network of rev_comp (before the final shift), as a spec mirror
@if W == u64
pub open spec fn net(x: u64) -> u64 {
    let s = x;
    let s = (s >> 2 & 0x3333333333333333) | (s & 0x3333333333333333) << 2;
    let s = (s >> 4 & 0x0F0F0F0F0F0F0F0F) | (s & 0x0F0F0F0F0F0F0F0F) << 4;
    let s = (s >> 8 & 0x00FF00FF00FF00FF) | (s & 0x00FF00FF00FF00FF) << 8;
    let s = (s >> 16 & 0x0000FFFF0000FFFF) | (s & 0x0000FFFF0000FFFF) << 16;
    let s = (s >> 32 & 0x00000000FFFFFFFF) | (s & 0x00000000FFFFFFFF) << 32;
    s ^ 0xAAAAAAAAAAAAAAAA
}
@else
pub open spec fn net(x: u128) -> u128 {
    let s = x;
    let s = (s >> 2 & 0x33333333333333333333333333333333) | (s & 0x33333333333333333333333333333333) << 2;
    let s = (s >> 4 & 0x0F0F0F0F0F0F0F0F0F0F0F0F0F0F0F0F) | (s & 0x0F0F0F0F0F0F0F0F0F0F0F0F0F0F0F0F) << 4;
    let s = (s >> 8 & 0x00FF00FF00FF00FF00FF00FF00FF00FF) | (s & 0x00FF00FF00FF00FF00FF00FF00FF00FF) << 8;
    let s = (s >> 16 & 0x0000FFFF0000FFFF0000FFFF0000FFFF) | (s & 0x0000FFFF0000FFFF0000FFFF0000FFFF) << 16;
    let s = (s >> 32 & 0x00000000FFFFFFFF00000000FFFFFFFF) | (s & 0x00000000FFFFFFFF00000000FFFFFFFF) << 32;
    let s = (s >> 64 & 0x0000000000000000FFFFFFFFFFFFFFFF) | (s & 0x0000000000000000FFFFFFFFFFFFFFFF) << 64;
    s ^ 0xAAAAAAAAAAAAAAAAAAAAAAAAAAAAAAAA
}
@endif

// what the property says about the packed reverse complement, per base, for every x, k, j:
// base j of rev_comp(x,k) is the complement of base k-1-j of x, and nothing lies above bit 2k
pub open spec fn rev_comp_spec(x: ${W}, k: int) -> ${W} { net(x) >> ((2 * (${WB} - k)) as ${W}) }

pub proof fn lemma_rev_comp_char(x: ${W}, k_size: int)
    requires 1 <= k_size <= ${WB}
    ensures
        forall|j: int| 0 <= j < k_size ==> #[trigger] ((rev_comp_spec(x, k_size) >> ((2 * j) as ${W})) & 3) == ((x >> ((2 * (k_size - 1 - j)) as ${W})) & 3) ^ 2,
        k_size < ${WB} ==> rev_comp_spec(x, k_size) & !mask(2 * k_size) == 0,
{
    let r = rev_comp_spec(x, k_size);
    let k = k_size as ${W};
    assert forall|j: int| 0 <= j < k_size implies #[trigger] ((r >> ((2 * j) as ${W})) & 3) == ((x >> ((2 * (k_size - 1 - j)) as ${W})) & 3) ^ 2 by {
        let jj = j as ${W};
        assert(((net(x) >> ((2 * (${WB} - k)) as ${W})) >> ((2 * jj) as ${W})) & 3 == ((x >> ((2 * (k - 1 - jj)) as ${W})) & 3) ^ 2) by(bit_vector)
            requires 1 <= k <= ${WB}, jj < k;
    }
    if k_size < ${WB} {
        let n = (2 * k) as ${W};
        assert((net(x) >> ((2 * (${WB} - k)) as ${W})) & !(((1${W} << n) - 1) as ${W}) == 0) by(bit_vector)
            requires 1 <= k < ${WB}, n == 2 * k;
    }
}
