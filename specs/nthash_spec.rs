// ---------- ntHash vocabulary (C12, C16): rotations, the two accumulators as folds, rolling and strand lemmas ----------
pub open spec fn rotl(x: u64, n: int) -> u64 {
    let m = (n % 64) as u64;
    if m == 0 { x } else { (x << m) | (x >> ((64 - m) as u64)) }
}
pub open spec fn rotr(x: u64, n: int) -> u64 {
    let m = (n % 64) as u64;
    if m == 0 { x } else { (x >> m) | (x << ((64 - m) as u64)) }
}
// textbook meaning of the two intrinsics (cross-checked for every value by the Kani harness `rotate_spec_all_values`)
pub assume_specification [u64::rotate_left] (x: u64, n: u32) -> (r: u64)
    ensures r == rotl(x, n as int);
pub assume_specification [u64::rotate_right] (x: u64, n: u32) -> (r: u64)
    ensures r == rotr(x, n as int);

spec fn hl(c: u8) -> u64 { HASH_LOOKUP[c as int] }
spec fn rl(c: u8) -> u64 { RC_HASH_LOOKUP[c as int] }

// forward accumulator after the first n bases of a k-window of codes: base i is rotated by k-1-i
spec fn fh_n(s: Seq<u8>, k: int, n: int) -> u64
    decreases n
{
    if n <= 0 { 0 } else { fh_n(s, k, n - 1) ^ rotl(hl(s[n - 1]), k - n) }
}
// reverse accumulator after m steps of the reversed iteration: step i takes base k-1-i, rotated by k-1-i
spec fn rh_n(s: Seq<u8>, k: int, m: int) -> u64
    decreases m
{
    if m <= 0 { 0 } else { rh_n(s, k, m - 1) ^ rotl(rl(s[k - m]), k - m) }
}
spec fn nt_hash(s: Seq<u8>, rc: bool) -> u64 {
    let f = fh_n(s, s.len() as int, s.len() as int);
    let r = rh_n(s, s.len() as int, s.len() as int);
    if rc { if f <= r { f } else { r } } else { f }
}

proof fn lemma_rot_facts()
    ensures
        forall|a: u64, b: u64, n: u64| n < 64 ==> #[trigger] rotl(a ^ b, n as int) == rotl(a, n as int) ^ rotl(b, n as int),
        forall|a: u64, b: u64| #[trigger] rotr(a ^ b, 1) == rotr(a, 1) ^ rotr(b, 1),
        forall|a: u64, n: u64| n < 63 ==> #[trigger] rotl(rotl(a, n as int), 1) == rotl(a, n as int + 1),
        forall|a: u64, n: u64| 1 <= n < 64 ==> #[trigger] rotr(rotl(a, n as int), 1) == rotl(a, n as int - 1),
        forall|a: u64| #[trigger] rotl(a, 0) == a,
{
    assert forall|a: u64, b: u64, n: u64| n < 64 implies #[trigger] rotl(a ^ b, n as int) == rotl(a, n as int) ^ rotl(b, n as int) by {
        if n > 0 {
            let m = (64 - n) as u64;
            assert((((a ^ b) << n) | ((a ^ b) >> m)) == (((a << n) | (a >> m)) ^ ((b << n) | (b >> m)))) by(bit_vector) requires 0 < n < 64, m == 64 - n;
        }
    }
    assert forall|a: u64, b: u64| #[trigger] rotr(a ^ b, 1) == rotr(a, 1) ^ rotr(b, 1) by {
        assert((((a ^ b) >> 1) | ((a ^ b) << 63)) == (((a >> 1) | (a << 63)) ^ ((b >> 1) | (b << 63)))) by(bit_vector);
    }
    assert forall|a: u64, n: u64| n < 63 implies #[trigger] rotl(rotl(a, n as int), 1) == rotl(a, n as int + 1) by {
        if n == 0 {
        } else {
            let m = (64 - n) as u64;
            let n1 = (n + 1) as u64;
            let m1 = (64 - n1) as u64;
            let x = (a << n) | (a >> m);
            assert(((x << 1) | (x >> 63)) == ((a << n1) | (a >> m1))) by(bit_vector)
                requires 0 < n < 63, m == 64 - n, n1 == n + 1, m1 == 64 - n1, x == (a << n) | (a >> m);
        }
    }
    assert forall|a: u64, n: u64| 1 <= n < 64 implies #[trigger] rotr(rotl(a, n as int), 1) == rotl(a, n as int - 1) by {
        let m = (64 - n) as u64;
        let x = (a << n) | (a >> m);
        if n == 1 {
            assert(((x >> 1) | (x << 63)) == a) by(bit_vector) requires n == 1, m == 63, x == (a << n) | (a >> m);
        } else {
            let n0 = (n - 1) as u64;
            let m0 = (64 - n0) as u64;
            assert(((x >> 1) | (x << 63)) == ((a << n0) | (a >> m0))) by(bit_vector)
                requires 1 < n < 64, m == 64 - n, n0 == n - 1, m0 == 64 - n0, x == (a << n) | (a >> m);
        }
    }
}

// the reverse-strand table is the forward table of the complemented base
proof fn lemma_tables_complementary()
    ensures
        forall|c: u8| c < 4 ==> #[trigger] rl(c ^ 2) == hl(c) && (c ^ 2) < 4,
        forall|c: u8| c < 4 ==> #[trigger] hl(c ^ 2) == rl(c),
{
    assert(hl(2) == rl(0) && hl(3) == rl(1) && hl(0) == rl(2) && hl(1) == rl(3));
    assert forall|c: u8| c < 4 implies #[trigger] hl(c ^ 2) == rl(c) by {
        assert(c < 4 ==> ((c == 0 ==> (c ^ 2) == 2) && (c == 1 ==> (c ^ 2) == 3) && (c == 2 ==> (c ^ 2) == 0) && (c == 3 ==> (c ^ 2) == 1))) by(bit_vector);
    }
    assert(rl(2) == hl(0) && rl(3) == hl(1) && rl(0) == hl(2) && rl(1) == hl(3));
    assert forall|c: u8| c < 4 implies #[trigger] rl(c ^ 2) == hl(c) && (c ^ 2) < 4 by {
        assert(c < 4 ==> ((c == 0 ==> (c ^ 2) == 2) && (c == 1 ==> (c ^ 2) == 3) && (c == 2 ==> (c ^ 2) == 0) && (c == 3 ==> (c ^ 2) == 1))) by(bit_vector);
    }
}

// ROLLING (forward): hashing the shifted window from scratch == one rolling update
proof fn lemma_roll_fh(s: Seq<u8>, b: u8, k: int, n: int)
    requires codes_ok(s), s.len() == k, 1 <= k <= 63, b < 4, 0 <= n <= k - 1
    ensures rotl(fh_n(s, k, n + 1), 1) == rotl(hl(s[0]), k) ^ fh_n(s.drop_first().push(b), k, n)
    decreases n
{
    lemma_rot_facts();
    let t = s.drop_first().push(b);
    if n == 0 {
        assert(fh_n(s, k, 1) == fh_n(s, k, 0) ^ rotl(hl(s[0]), k - 1));
        let x = rotl(hl(s[0]), k - 1);
        assert((0u64 ^ x) == x) by(bit_vector);
        assert(rotl(rotl(hl(s[0]), (k - 1) as u64 as int), 1) == rotl(hl(s[0]), (k - 1) as u64 as int + 1));
        let y = rotl(hl(s[0]), k);
        assert((y ^ 0u64) == y) by(bit_vector);
    } else {
        lemma_roll_fh(s, b, k, n - 1);
        // fh_n(s,k,n+1) = fh_n(s,k,n) ^ rotl(hl(s[n]), k-n-1)
        let a = fh_n(s, k, n);
        let e = (k - n - 1) as u64;
        let z = rotl(hl(s[n]), e as int);
        assert(rotl(a ^ z, 1u64 as int) == rotl(a, 1u64 as int) ^ rotl(z, 1u64 as int));
        assert(rotl(rotl(hl(s[n]), e as int), 1) == rotl(hl(s[n]), e as int + 1));
        assert(t[n - 1] == s[n]);
        // fh_n(t,k,n) = fh_n(t,k,n-1) ^ rotl(hl(t[n-1]), k-n)
        let p = rotl(hl(s[0]), k);
        let q = fh_n(t, k, n - 1);
        let w = rotl(hl(s[n]), k - n);
        assert(((p ^ q) ^ w) == (p ^ (q ^ w))) by(bit_vector);
    }
}

proof fn lemma_roll_fwd_hash(s: Seq<u8>, b: u8, k: int)
    requires codes_ok(s), s.len() == k, 1 <= k <= 63, b < 4
    ensures fh_n(s.drop_first().push(b), k, k) == rotl(fh_n(s, k, k), 1) ^ rotl(hl(s[0]), k) ^ hl(b)
{
    lemma_rot_facts();
    lemma_roll_fh(s, b, k, k - 1);
    let t = s.drop_first().push(b);
    assert(t[k - 1] == b);
    assert(fh_n(t, k, k) == fh_n(t, k, k - 1) ^ rotl(hl(b), 0));
    let r = rotl(fh_n(s, k, k), 1);
    let p = rotl(hl(s[0]), k);
    let q = fh_n(t, k, k - 1);
    let hb = hl(b);
    assert(r == p ^ q ==> (q ^ hb) == ((r ^ p) ^ hb)) by(bit_vector);
}

// ROLLING (reverse strand)
proof fn lemma_roll_rh(s: Seq<u8>, b: u8, k: int, m: int)
    requires codes_ok(s), s.len() == k, 1 <= k <= 63, b < 4, 1 <= m <= k
    ensures rh_n(s.drop_first().push(b), k, m) == rotl(rl(b), k - 1) ^ rotr(rh_n(s, k, m - 1), 1)
    decreases m
{
    lemma_rot_facts();
    let t = s.drop_first().push(b);
    if m == 1 {
        assert(t[k - 1] == b);
        assert(rh_n(t, k, 1) == rh_n(t, k, 0) ^ rotl(rl(b), k - 1));
        let x = rotl(rl(b), k - 1);
        assert((0u64 ^ x) == (x ^ ((0u64 >> 1) | (0u64 << 63)))) by(bit_vector);
    } else {
        lemma_roll_rh(s, b, k, m - 1);
        // rh_n(t,k,m) = rh_n(t,k,m-1) ^ rotl(rl(t[k-m]), k-m);  t[k-m] = s[k-m+1]
        assert(t[k - m] == s[k - m + 1]);
        // rh_n(s,k,m-1) = rh_n(s,k,m-2) ^ rotl(rl(s[k-m+1]), k-m+1)
        let a = rh_n(s, k, m - 2);
        let e = (k - m + 1) as u64;
        let z = rotl(rl(s[k - m + 1]), e as int);
        assert(rotr(a ^ z, 1) == rotr(a, 1) ^ rotr(z, 1));
        assert(rotr(rotl(rl(s[k - m + 1]), e as int), 1) == rotl(rl(s[k - m + 1]), e as int - 1));
        let p = rotl(rl(b), k - 1);
        let q = rotr(a, 1);
        let w = rotl(rl(s[k - m + 1]), k - m);
        assert(((p ^ q) ^ w) == (p ^ (q ^ w))) by(bit_vector);
    }
}

proof fn lemma_roll_rev_hash(s: Seq<u8>, b: u8, k: int)
    requires codes_ok(s), s.len() == k, 1 <= k <= 63, b < 4
    ensures rh_n(s.drop_first().push(b), k, k) == rotr(rh_n(s, k, k), 1) ^ rotr(rl(s[0]), 1) ^ rotl(rl(b), k - 1)
{
    lemma_rot_facts();
    lemma_roll_rh(s, b, k, k);
    assert(rh_n(s, k, k) == rh_n(s, k, k - 1) ^ rotl(rl(s[0]), 0));
    let a = rh_n(s, k, k - 1);
    let c0 = rl(s[0]);
    assert(rotr((a ^ c0) ^ c0, 1) == rotr(a ^ c0, 1) ^ rotr(c0, 1));
    assert(((a ^ c0) ^ c0) == a) by(bit_vector);
    let p = rotl(rl(b), k - 1);
    let x = rotr(a ^ c0, 1);
    let y = rotr(c0, 1);
    assert((p ^ (x ^ y)) == ((x ^ y) ^ p)) by(bit_vector);
}

// STRAND SYMMETRY: the forward accumulator of a window is the reverse accumulator of its reverse complement
proof fn lemma_fh_is_rh_of_rc(s: Seq<u8>, k: int, m: int)
    requires codes_ok(s), s.len() == k, 0 <= m <= k
    ensures fh_n(s, k, m) == rh_n(rcc(s), k, m), rh_n(s, k, m) == fh_n(rcc(s), k, m)
    decreases m
{
    lemma_tables_complementary();
    if m > 0 {
        lemma_fh_is_rh_of_rc(s, k, m - 1);
        let t = rcc(s);
        assert(t[k - m] == s[m - 1] ^ 2);
        assert(t[m - 1] == s[k - m] ^ 2);
        assert(rl(s[m - 1] ^ 2) == hl(s[m - 1]));
        let c = s[k - m];
        assert(c < 4);
        assert(hl(c ^ 2) == rl(c));
    }
}

// the hash reported for a window and for its reverse complement is the same in two-strand mode
proof fn lemma_nt_hash_strand(s: Seq<u8>)
    requires codes_ok(s), 1 <= s.len() <= 63
    ensures nt_hash(s, true) == nt_hash(rcc(s), true)
{
    lemma_fh_is_rh_of_rc(s, s.len() as int, s.len() as int);
}
