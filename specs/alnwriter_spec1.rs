// ---------------- spec vocabulary ----------------
pub open spec fn off(r: Seq<Vec<u8>>, c: int) -> int
    decreases c
{
    if c <= 0 { 0 } else { off(r, c - 1) + r[c - 1]@.len() }
}

pub open spec fn s_is_ambiguous(b: u8) -> bool {
    let l = b | 0x20u8;
    !(l == 0x61 || l == 0x63 || l == 0x67 || l == 0x74 || l == 0x75 || l == 0x2d)
}

pub open spec fn covered(hist: Seq<(u8, usize)>, h: int, a: int) -> bool {
    exists|j: int| 0 <= j < hist.len() && #[trigger] hist[j].1 - h <= a && a <= hist[j].1 + h
}

pub open spec fn is_mid(hist: Seq<(u8, usize)>, a: int) -> bool {
    exists|j: int| 0 <= j < hist.len() && #[trigger] hist[j].1 == a
}

pub open spec fn sorted(hist: Seq<(u8, usize)>) -> bool {
    forall|i: int, j: int| 0 <= i < j < hist.len() ==> hist[i].1 < hist[j].1
}

// upper-case of an ASCII byte
pub open spec fn upper(b: u8) -> u8 { if 97 <= b <= 122 { (b - 32) as u8 } else { b } }
// the stored reference holds no lower-case letter (established by RefSka::new, see DESIGN §6 D2)
pub open spec fn ref_upper(r: Seq<Vec<u8>>) -> bool {
    forall|c: int, p: int| 0 <= c < r.len() && 0 <= p < r[c]@.len() ==> #[trigger] r[c]@[p] == upper(r[c]@[p])
}
