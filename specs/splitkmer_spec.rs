// ---------- representation predicates of SplitKmer (DESIGN §5/C01) ----------
pub open spec fn rep3(u: ${W}, m: u8, l: ${W}, c: Seq<u8>, k: int) -> bool {
    let h = (k - 1) / 2;
    &&& c.len() == k && codes_ok(c)
    &&& u == pack(c.subrange(0, h)) << ((2 * h) as ${W})
    &&& m == c[h]
    &&& l == pack(c.subrange(h + 1, k))
}

pub proof fn lemma_upper_step(u: ${W}, b: ${W}, s: ${W})
    requires s < ${B2}, b < 4
    ensures ((u << s) << 2) | (b << s) == ((u << 2) | b) << s
{
    assert(((u << s) << 2) | (b << s) == ((u << 2) | b) << s) by(bit_vector) requires s < ${B2};
}

pub proof fn lemma_codes_snoc(seq: Seq<u8>, a: int, b: int)
    requires 0 <= a <= b < seq.len()
    ensures
        codes(seq.subrange(a, b + 1)).drop_last() =~= codes(seq.subrange(a, b)),
        codes(seq.subrange(a, b + 1)).last() == enc(seq[b]),
        pack(codes(seq.subrange(a, b + 1))) == (pack(codes(seq.subrange(a, b))) << 2) | (enc(seq[b]) as ${W}),
{
    let s1 = codes(seq.subrange(a, b + 1));
    assert(s1.drop_last() =~= codes(seq.subrange(a, b)));
    assert(s1.last() == enc(seq[b]));
}

pub proof fn lemma_codes_sub(seq: Seq<u8>, a: int, b: int, i: int, j: int)
    requires 0 <= a <= b <= seq.len(), 0 <= i <= j <= b - a
    ensures codes(seq.subrange(a, b)).subrange(i, j) =~= codes(seq.subrange(a + i, a + j))
{
}

pub proof fn lemma_rep3_from_parts(seq: Seq<u8>, p: int, k: int, u: ${W}, m: u8, l: ${W})
    requires
        0 <= p, p + k <= seq.len(), 1 <= k, k % 2 == 1,
        u == pack(codes(seq.subrange(p, p + (k - 1) / 2))) << ((2 * ((k - 1) / 2)) as ${W}),
        m == enc(seq[p + (k - 1) / 2]),
        l == pack(codes(seq.subrange(p + (k - 1) / 2 + 1, p + k))),
    ensures rep3(u, m, l, codes(seq.subrange(p, p + k)), k)
{
    let h = (k - 1) / 2;
    lemma_codes_ok(seq.subrange(p, p + k));
    lemma_codes_sub(seq, p, p + k, 0, h);
    lemma_codes_sub(seq, p, p + k, h + 1, k);
}
