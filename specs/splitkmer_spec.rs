// ---------- representation predicates of SplitKmer (DESIGN §5/C01) ----------
pub open spec fn rep3(u: ${W}, m: u8, l: ${W}, c: Seq<u8>, k: int) -> bool {
    let h = (k - 1) / 2;
    &&& c.len() == k && codes_ok(c)
    &&& u == pack(c.subrange(0, h)) << ((2 * h) as ${W})
    &&& m == c[h]
    &&& l == pack(c.subrange(h + 1, k))
}

pub proof fn lemma_upper_step(u: ${W}, b: ${W}, s: ${W})
    requires s < ${B2}, b < 4
    ensures ((u << s) << 2) | (b << s) == ((u << 2) | b) << s
{
    assert(((u << s) << 2) | (b << s) == ((u << 2) | b) << s) by(bit_vector) requires s < ${B2};
}

pub proof fn lemma_codes_snoc(seq: Seq<u8>, a: int, b: int)
    requires 0 <= a <= b < seq.len()
    ensures
        codes(seq.subrange(a, b + 1)).drop_last() =~= codes(seq.subrange(a, b)),
        codes(seq.subrange(a, b + 1)).last() == enc(seq[b]),
        pack(codes(seq.subrange(a, b + 1))) == (pack(codes(seq.subrange(a, b))) << 2) | (enc(seq[b]) as ${W}),
{
    let s1 = codes(seq.subrange(a, b + 1));
    assert(s1.drop_last() =~= codes(seq.subrange(a, b)));
    assert(s1.last() == enc(seq[b]));
}

pub proof fn lemma_codes_sub(seq: Seq<u8>, a: int, b: int, i: int, j: int)
    requires 0 <= a <= b <= seq.len(), 0 <= i <= j <= b - a
    ensures codes(seq.subrange(a, b)).subrange(i, j) =~= codes(seq.subrange(a + i, a + j))
{
}

pub proof fn lemma_rep3_from_parts(seq: Seq<u8>, p: int, k: int, u: ${W}, m: u8, l: ${W})
    requires
        0 <= p, p + k <= seq.len(), 1 <= k, k % 2 == 1,
        u == pack(codes(seq.subrange(p, p + (k - 1) / 2))) << ((2 * ((k - 1) / 2)) as ${W}),
        m == enc(seq[p + (k - 1) / 2]),
        l == pack(codes(seq.subrange(p + (k - 1) / 2 + 1, p + k))),
    ensures rep3(u, m, l, codes(seq.subrange(p, p + k)), k)
{
    let h = (k - 1) / 2;
    lemma_codes_ok(seq.subrange(p, p + k));
    lemma_codes_sub(seq, p, p + k, 0, h);
    lemma_codes_sub(seq, p, p + k, h + 1, k);
}

impl<'a> SplitKmer<'a> {
    spec fn h(&self) -> int { (self.k - 1) / 2 }
    spec fn strict(&self) -> bool { self.qual_filter == QualFilter::Strict }
    // start of the current window
    spec fn p(&self) -> int { self.index - (self.k - 1) }
    // the current window as 2-bit codes
    spec fn win(&self) -> Seq<u8> { codes(self.seq@.subrange(self.p(), self.p() + self.k)) }
    spec fn wok(&self, q: int) -> bool {
        window_ok(self.seq@, self.qual, self.strict(), self.min_qual, q, self.k as int)
    }

    spec fn params_ok(&self) -> bool {
        &&& 5 <= self.k <= ${KMAX} && self.k % 2 == 1
        &&& self.lower_mask == mask(self.k - 1)
        &&& self.upper_mask == mask(self.k - 1) << ((self.k - 1) as ${W})
        &&& self.seq_len == self.seq@.len()
        &&& self.seq_len < usize::MAX - 64
        &&& qual_wf(self.qual, self.seq_len as int)
    }
    // reads mode: the rolling hash is the from-scratch ntHash of the current window
    spec fn hash_ok(&self) -> bool {
        self.hash_gen.is_some() ==> self.hash_gen.unwrap().wf_for(self.win(), self.rc)
    }

    spec fn rep_fwd(&self, c: Seq<u8>) -> bool { rep3(self.upper, self.middle_base, self.lower, c, self.k as int) }
    spec fn rep_rc(&self, c: Seq<u8>) -> bool { rep3(self.rc_upper, self.rc_middle_base, self.rc_lower, rcc(c), self.k as int) }

    // everything but the reverse-complement fields is consistent
    spec fn pre_inv(&self) -> bool {
        &&& self.params_ok()
        &&& self.k - 1 <= self.index < self.seq_len
        &&& self.wok(self.p())
        &&& self.rep_fwd(self.win())
        &&& self.hash_ok()
    }

    // the struct invariant between calls
    spec fn inv(&self) -> bool {
        &&& self.pre_inv()
        &&& (self.rc ==> self.rep_rc(self.win()))
    }

    // the input and the parameters never change
    spec fn same_input(&self, o: &Self) -> bool {
        &&& self.k == o.k && self.upper_mask == o.upper_mask && self.lower_mask == o.lower_mask
        &&& self.seq@ == o.seq@ && self.seq_len == o.seq_len && self.qual == o.qual
        &&& self.qual_filter == o.qual_filter && self.min_qual == o.min_qual && self.rc == o.rc
    }
}

pub open spec fn fwd_val(c: Seq<u8>) -> ${W} {
    let h = (c.len() - 1) / 2;
    (pack(c.subrange(0, h)) << ((2 * h) as ${W})) | pack(c.subrange(h + 1, c.len() as int))
}

// what get_curr_kmer may return for a code window: the lower-ordered orientation with its middle base and the
// strand flag; when both orientations pack to the same value (the k-mer is its own reverse complement) either
// one is acceptable — the property does not fix the tie, and such k-mers are stored as W/S/N anyway
pub open spec fn canon_ok(c: Seq<u8>, rc: bool, res: (${W}, u8, bool)) -> bool {
    let h = (c.len() - 1) / 2;
    let f = fwd_val(c);
    let r = fwd_val(rcc(c));
    if !rc || f < r { res == (f, c[h], false) }
    else if f > r { res == (r, rcc(c)[h], true) }
    else { res == (f, c[h], false) || res == (r, rcc(c)[h], true) }
}

pub open spec fn palin(c: Seq<u8>) -> bool {
    let h = (c.len() - 1) / 2;
    pack(c.subrange(0, h)) == pack(rcc(c).subrange(0, h)) && pack(c.subrange(h + 1, c.len() as int)) == pack(rcc(c).subrange(h + 1, c.len() as int))
}

pub proof fn lemma_palin(c: Seq<u8>, u: ${W}, l: ${W}, ru: ${W}, rl: ${W})
    requires
        c.len() % 2 == 1, 5 <= c.len() <= ${KMAX}, codes_ok(c),
        u == pack(c.subrange(0, (c.len() - 1) / 2)) << ((2 * ((c.len() - 1) / 2)) as ${W}),
        l == pack(c.subrange((c.len() - 1) / 2 + 1, c.len() as int)),
        ru == pack(rcc(c).subrange(0, (c.len() - 1) / 2)) << ((2 * ((c.len() - 1) / 2)) as ${W}),
        rl == pack(rcc(c).subrange((c.len() - 1) / 2 + 1, c.len() as int)),
    ensures (u == ru && l == rl) == palin(c)
{
    let h = (c.len() - 1) / 2;
    let a = pack(c.subrange(0, h));
    let b = pack(rcc(c).subrange(0, h));
    lemma_rcc_codes_ok(c);
    lemma_pack_bound(c.subrange(0, h));
    lemma_pack_bound(rcc(c).subrange(0, h));
    let hh = (2 * h) as ${W};
    let mk = ((1${W} << hh) - 1) as ${W};
    assert(mask(2 * h) == mk);
    assert((a << hh == b << hh) == (a == b)) by(bit_vector)
        requires a & !mk == 0, b & !mk == 0, mk == ((1${W} << hh) - 1) as ${W}, 4 <= hh <= ${HB};
}

pub proof fn lemma_rcc_codes_ok(c: Seq<u8>)
    requires codes_ok(c)
    ensures codes_ok(rcc(c)), rcc(c).len() == c.len()
{
    assert forall|i: int| 0 <= i < rcc(c).len() implies #[trigger] rcc(c)[i] < 4 by {
        let x = c[c.len() - 1 - i];
        assert(x < 4 ==> x ^ 2 < 4) by(bit_vector);
    }
}

// the base that leaves the window when it rolls: the top code of the upper half
pub proof fn lemma_old_base(u: ${W}, h: int)
    requires 2 <= h <= ${HMAX}, u & !mask(2 * h) == 0
    ensures
        (((u << ((2 * h) as ${W})) >> ((2 * (2 * h + 1 - 2)) as ${W})) as u8) < 4,
        (((u << ((2 * h) as ${W})) >> ((2 * (2 * h + 1 - 2)) as ${W})) as u8) == ((u >> ((2 * (h - 1)) as ${W})) & 3),
{
    let hh = (2 * h) as ${W};
    let s = (2 * (2 * h + 1 - 2)) as ${W};
    let t = (2 * (h - 1)) as ${W};
    let mk = ((1${W} << hh) - 1) as ${W};
    assert(mask(2 * h) == mk);
    assert((((u << hh) >> s) as u8) < 4 && (((u << hh) >> s) as u8) == ((u >> t) & 3)) by(bit_vector)
        requires u & !mk == 0, mk == ((1${W} << hh) - 1) as ${W}, 4 <= hh <= ${HB}, s == 2 * hh - 2, t == hh - 2;
}
