// ---------- RefSka::new, the per-record collection of reference split k-mers (fragment, R6) ----------
// needletail's record, reduced to the two accessors the fragment uses (assumed contract on the dependency:
// num_bases() == seq().len(); R3: seq() is a borrowed slice instead of Cow<[u8]>)
struct SeqRecShim<'a> { s: &'a [u8] }
impl<'a> SeqRecShim<'a> {
    fn seq(&self) -> (r: &'a [u8])
        ensures r@ == self.s@
    { self.s }
    fn num_bases(&self) -> (r: usize)
        ensures r == self.s@.len()
    { self.s.len() }
}

// entry j of the list describes the window starting at pos - h of the record `seq` on contig `chrom`
spec fn refkmer_of(e: RefKmer, seq: Seq<u8>, k: int, rc: bool, chrom: int) -> bool {
    let h = (k - 1) / 2;
    let p = e.pos - h;
    &&& e.chrom == chrom
    &&& 0 <= p && p + k <= seq.len()
    &&& window_ok(seq, None::<&[u8]>, false, 0, p, k)
    &&& canon_ok(codes(seq.subrange(p, p + k)), rc, (e.kmer, e.base, e.rc))
}

// what the fragment appends for one record: one entry per window of k valid bases, in increasing position
#[verifier::opaque]
spec fn collected(out: Seq<RefKmer>, old: Seq<RefKmer>, seq: Seq<u8>, k: int, rc: bool, chrom: int, upto: int) -> bool {
    let h = (k - 1) / 2;
    &&& out.len() >= old.len()
    &&& out.subrange(0, old.len() as int) =~= old
    &&& (forall|j: int| old.len() <= j < out.len() ==> refkmer_of(#[trigger] out[j], seq, k, rc, chrom))
    &&& (forall|i: int, j: int| old.len() <= i < j < out.len() ==> (#[trigger] out[i]).pos < (#[trigger] out[j]).pos)
    &&& (forall|p: int| 0 <= p <= upto && p + k <= seq.len() && window_ok(seq, None::<&[u8]>, false, 0, p, k)
            ==> exists|j: int| old.len() <= j < out.len() && (#[trigger] out[j]).pos == p + h)
}

// first entry: nothing valid before the first window
proof fn lemma_collect_first(out: Seq<RefKmer>, old: Seq<RefKmer>, seq: Seq<u8>, k: int, rc: bool, chrom: int, p: int, e: RefKmer)
    requires
        out == old.push(e), refkmer_of(e, seq, k, rc, chrom), e.pos == p + (k - 1) / 2,
        forall|q: int| 0 <= q < p ==> !window_ok(seq, None::<&[u8]>, false, 0, q, k),
    ensures collected(out, old, seq, k, rc, chrom, p)
{
    reveal(collected);
    let h = (k - 1) / 2;
    assert(out.subrange(0, old.len() as int) =~= old);
    assert forall|q: int| 0 <= q <= p && q + k <= seq.len() && window_ok(seq, None::<&[u8]>, false, 0, q, k)
        implies exists|j: int| old.len() <= j < out.len() && (#[trigger] out[j]).pos == q + h by {
        assert(q == p);
        assert(out[old.len() as int].pos == q + h);
    }
}

// one more window: the next valid one after lastp
proof fn lemma_collect_step(prev: Seq<RefKmer>, out: Seq<RefKmer>, old: Seq<RefKmer>, seq: Seq<u8>, k: int, rc: bool, chrom: int, lastp: int, p: int, e: RefKmer)
    requires
        collected(prev, old, seq, k, rc, chrom, lastp),
        prev.len() > old.len(), prev[prev.len() - 1].pos == lastp + (k - 1) / 2,
        out == prev.push(e), refkmer_of(e, seq, k, rc, chrom), e.pos == p + (k - 1) / 2, lastp < p,
        forall|q: int| lastp < q < p ==> !window_ok(seq, None::<&[u8]>, false, 0, q, k),
    ensures collected(out, old, seq, k, rc, chrom, p), out[out.len() - 1].pos == p + (k - 1) / 2
{
    reveal(collected);
    let h = (k - 1) / 2;
    assert(out.subrange(0, old.len() as int) =~= old);
    assert forall|i: int, j: int| old.len() <= i < j < out.len() implies (#[trigger] out[i]).pos < (#[trigger] out[j]).pos by {
        if j == out.len() - 1 {
            assert(out[i] == prev[i]);
            if i < prev.len() - 1 { assert(prev[i].pos < prev[prev.len() - 1].pos); }
        } else {
            assert(out[i] == prev[i] && out[j] == prev[j]);
        }
    }
    assert forall|q: int| 0 <= q <= p && q + k <= seq.len() && window_ok(seq, None::<&[u8]>, false, 0, q, k)
        implies exists|j: int| old.len() <= j < out.len() && (#[trigger] out[j]).pos == q + h by {
        if q == p {
            assert(out[out.len() - 1].pos == q + h);
        } else {
            assert(q <= lastp);
            let j = choose|j: int| old.len() <= j < prev.len() && (#[trigger] prev[j]).pos == q + h;
            assert(out[j] == prev[j]);
        }
    }
    assert forall|j: int| old.len() <= j < out.len() implies refkmer_of(#[trigger] out[j], seq, k, rc, chrom) by {
        if j < prev.len() { assert(out[j] == prev[j]); }
    }
}

// no valid window after the last one: the list is complete for the record
proof fn lemma_collect_final(out: Seq<RefKmer>, old: Seq<RefKmer>, seq: Seq<u8>, k: int, rc: bool, chrom: int, lastp: int)
    requires
        collected(out, old, seq, k, rc, chrom, lastp),
        forall|q: int| lastp < q && q + k <= seq.len() ==> !window_ok(seq, None::<&[u8]>, false, 0, q, k),
    ensures collected(out, old, seq, k, rc, chrom, seq.len() as int)
{
    reveal(collected);
}

// a record without any valid window appends nothing
proof fn lemma_collect_none(old: Seq<RefKmer>, seq: Seq<u8>, k: int, rc: bool, chrom: int)
    requires forall|q: int| 0 <= q && q + k <= seq.len() ==> !window_ok(seq, None::<&[u8]>, false, 0, q, k)
    ensures collected(old, old, seq, k, rc, chrom, seq.len() as int)
{
    reveal(collected);
    assert(old.subrange(0, old.len() as int) =~= old);
}

// what the repeat loop (unit repeatfrag: kmers_ok) and the writer (unit alnwriter: h <= pos, pos + h < len, calls in
// reference order) take as preconditions, for the entries of one record
proof fn lemma_collected_order_and_range(out: Seq<RefKmer>, old: Seq<RefKmer>, seq: Seq<u8>, k: int, rc: bool, chrom: int)
    requires collected(out, old, seq, k, rc, chrom, seq.len() as int), k >= 1, k % 2 == 1
    ensures
        forall|j: int| old.len() <= j < out.len() ==> (#[trigger] out[j]).chrom == chrom && (k - 1) / 2 <= out[j].pos && out[j].pos + (k - 1) / 2 < seq.len(),
        forall|i: int, j: int| old.len() <= i < j < out.len() ==> (#[trigger] out[i]).pos < (#[trigger] out[j]).pos,
{
    reveal(collected);
    assert forall|j: int| old.len() <= j < out.len() implies (#[trigger] out[j]).chrom == chrom && (k - 1) / 2 <= out[j].pos && out[j].pos + (k - 1) / 2 < seq.len() by {
        assert(refkmer_of(out[j], seq, k, rc, chrom));
    }
}
