// rev_comp over the 2h-base split value, expressed on packed halves
proof fn lemma_update_rc(c: Seq<u8>, h: int)
    requires codes_ok(c), 2 <= h <= ${HMAX}, c.len() == 2 * h + 1
    ensures ({
        let r = rcc(c);
        let u = pack(c.subrange(0, h));
        let l = pack(c.subrange(h + 1, 2 * h + 1));
        let hh = (2 * h) as ${W};
        let mk = ((1${W} << hh) - 1) as ${W};
        let sh = (2 * (${WB} - 2 * h)) as ${W};
        &&& pack(r.subrange(0, h)) << hh == (net(l) >> sh) & (mk << hh)
        &&& pack(r.subrange(h + 1, 2 * h + 1)) == (net(u << hh) >> sh) & mk
        &&& r[h] == c[h] ^ 2
    })
{
    let k = 2 * h + 1;
    let r = rcc(c);
    let up = c.subrange(0, h);
    let lo = c.subrange(h + 1, k);
    let u = pack(up);
    let l = pack(lo);
    let hh = (2 * h) as ${W};
    let mk = ((1${W} << hh) - 1) as ${W};
    let sh = (2 * (${WB} - 2 * h)) as ${W};
    let n = (2 * h) as ${W};   // number of bases handed to rev_comp
    assert(mask(2 * h) == mk);
    lemma_pack_bound(up);
    lemma_pack_bound(lo);
    assert(codes_ok(r)) by {
        assert forall|i: int| 0 <= i < r.len() implies #[trigger] r[i] < 4 by {
            let x = c[c.len() - 1 - i];
            assert(x < 4 ==> x ^ 2 < 4) by(bit_vector);
        }
    }
    // --- rc_upper: top h bases of rev_comp(l, 2h) are the complemented reversed lower half
    let ru = r.subrange(0, h);      // ru[j] = comp(c[k-1-j]) = comp(lo[h-1-j])
    let v1 = ((net(l) >> sh) & (mk << hh)) >> hh;
    assert(v1 & !mk == 0) by(bit_vector) requires v1 == ((net(l) >> sh) & (mk << hh)) >> hh, mk == ((1${W} << hh) - 1) as ${W}, 4 <= hh <= ${HB};
    assert forall|j: int| 0 <= j < h implies (v1 >> ((2 * j) as ${W})) & 3 == #[trigger] ru[ru.len() - 1 - j] as ${W} by {
        // code j of v1 = code (h + j) of rev_comp(l, 2h) = comp(code (2h-1-(h+j)) of l) = comp(code (h-1-j) of l) = comp(lo[j])
        lemma_code_at(lo, h - 1 - j);
        let jj = (2 * j) as ${W};
        let s1 = (2 * (h - 1 - j)) as ${W};
        let x = lo[j] as ${W};
        assert((v1 >> jj) & 3 == ((l >> s1) & 3) ^ 2) by(bit_vector)
            requires v1 == ((net(l) >> sh) & (mk << hh)) >> hh, mk == ((1${W} << hh) - 1) as ${W}, sh == 2 * (${WB} - hh), 4 <= hh <= ${HB}, jj + 2 <= hh, s1 == hh - 2 - jj, jj % 2 == 0, hh % 2 == 0;
        assert(ru[h - 1 - j] == lo[j] ^ 2);
        let y = lo[j];
        assert((y as ${W}) ^ 2 == (y ^ 2) as ${W}) by(bit_vector);
    }
    lemma_ext(v1, ru);
    assert((net(l) >> sh) & (mk << hh) == v1 << hh) by(bit_vector)
        requires v1 == ((net(l) >> sh) & (mk << hh)) >> hh, mk == ((1${W} << hh) - 1) as ${W}, 4 <= hh <= ${HB};
    // --- rc_lower: low h bases of rev_comp(u << 2h, 2h) are the complemented reversed upper half
    let rl = r.subrange(h + 1, k);  // rl[j] = comp(c[k-1-(h+1+j)]) = comp(up[h-1-j])
    let v2 = (net(u << hh) >> sh) & mk;
    assert(v2 & !mk == 0) by(bit_vector) requires v2 == (net(u << hh) >> sh) & mk;
    assert forall|j: int| 0 <= j < h implies (v2 >> ((2 * j) as ${W})) & 3 == #[trigger] rl[rl.len() - 1 - j] as ${W} by {
        // code j of rev_comp(U, 2h) = comp(code (2h-1-j) of U), U = u << 2h, = comp(code (h-1-j) of u) = comp(up[j])
        lemma_code_at(up, h - 1 - j);
        let jj = (2 * j) as ${W};
        let s1 = (2 * (h - 1 - j)) as ${W};
        assert((v2 >> jj) & 3 == ((u >> s1) & 3) ^ 2) by(bit_vector)
            requires v2 == (net(u << hh) >> sh) & mk, mk == ((1${W} << hh) - 1) as ${W}, u & !mk == 0, sh == 2 * (${WB} - hh), 4 <= hh <= ${HB}, jj + 2 <= hh, s1 == hh - 2 - jj, jj % 2 == 0, hh % 2 == 0;
        assert(rl[h - 1 - j] == up[j] ^ 2);
        let y = up[j];
        assert((y as ${W}) ^ 2 == (y ^ 2) as ${W}) by(bit_vector);
    }
    lemma_ext(v2, rl);
}

// facts about the forward half of a roll, stated on packed values
proof fn lemma_roll_fwd(c: Seq<u8>, b: u8, h: int)
    requires codes_ok(c), b < 4, 2 <= h <= ${HMAX}, c.len() == 2 * h + 1
    ensures ({
        let c2 = c.drop_first().push(b);
        let u = pack(c.subrange(0, h));
        let l = pack(c.subrange(h + 1, 2 * h + 1));
        let m = c[h] as ${W};
        let hh = (2 * h) as ${W};
        let mk = ((1${W} << hh) - 1) as ${W};
        &&& codes_ok(c2) && c2.len() == c.len()
        &&& pack(c2.subrange(0, h)) << hh == (((u << hh) << 2) | (m << hh)) & (mk << hh)
        &&& c2[h] as ${W} == (l >> ((2 * (h - 1)) as ${W}))
        &&& c2[h] < 4
        &&& pack(c2.subrange(h + 1, 2 * h + 1)) == ((l << 2) | (b as ${W})) & mk
    })
{
    let c2 = c.drop_first().push(b);
    let k = 2 * h + 1;
    let up = c.subrange(0, h);
    let lo = c.subrange(h + 1, k);
    let u = pack(up);
    let l = pack(lo);
    let m = c[h] as ${W};
    let hh = (2 * h) as ${W};
    let mk = ((1${W} << hh) - 1) as ${W};
    assert(mask(2 * h) == mk);
    // upper: c2[0..h] = (up.push(c[h])).drop_first()
    let upx = up.push(c[h]);
    assert(c2.subrange(0, h) =~= upx.drop_first());
    assert(codes_ok(upx));
    lemma_pack_drop_first(upx);
    lemma_pack_push(up, c[h]);
    lemma_pack_bound(up);
    assert(pack(c2.subrange(0, h)) == ((u << 2) | m) & mk);
    assert((((u << 2) | m) & mk) << hh == (((u << hh) << 2) | (m << hh)) & (mk << hh)) by(bit_vector)
        requires u & !mk == 0, m < 4, mk == ((1${W} << hh) - 1) as ${W}, 4 <= hh <= ${HB};
    // middle: first code of lo
    assert(c2[h] == lo[0]);
    lemma_code_at(lo, h - 1);
    lemma_pack_bound(lo);
    let sh = (2 * (h - 1)) as ${W};
    assert((l >> sh) & 3 == l >> sh) by(bit_vector) requires l & !mk == 0, mk == ((1${W} << hh) - 1) as ${W}, hh == sh + 2, sh <= ${HB2};
    // lower: c2[h+1..k] = (lo.push(b)).drop_first()
    let lox = lo.push(b);
    assert(c2.subrange(h + 1, k) =~= lox.drop_first());
    assert(codes_ok(lox));
    lemma_pack_drop_first(lox);
    lemma_pack_push(lo, b);
}

proof fn lemma_roll_rc(c: Seq<u8>, b: u8, h: int)
    requires codes_ok(c), b < 4, 2 <= h <= ${HMAX}, c.len() == 2 * h + 1
    ensures ({
        let c2 = c.drop_first().push(b);
        let r = rcc(c);
        let r2 = rcc(c2);
        let ru = pack(r.subrange(0, h));
        let rl = pack(r.subrange(h + 1, 2 * h + 1));
        let rm = r[h] as ${W};
        let hh = (2 * h) as ${W};
        let mk = ((1${W} << hh) - 1) as ${W};
        &&& codes_ok(r2) && r2.len() == c.len()
        &&& pack(r2.subrange(h + 1, 2 * h + 1)) == ((rl >> 2) | (rm << ((2 * (h - 1)) as ${W}))) & mk
        &&& r2[h] == c2[h] ^ 2
        &&& pack(r2.subrange(0, h)) << hh == (((ru << hh) >> 2) | (((b ^ 2) as ${W}) << ((2 * (2 * h - 1)) as ${W}))) & (mk << hh)
    })
{
    let c2 = c.drop_first().push(b);
    let k = 2 * h + 1;
    let r = rcc(c);
    let r2 = rcc(c2);
    let hh = (2 * h) as ${W};
    let mk = ((1${W} << hh) - 1) as ${W};
    assert(codes_ok(r)) by {
        assert forall|i: int| 0 <= i < r.len() implies #[trigger] r[i] < 4 by {
            let x = c[c.len() - 1 - i];
            assert(x < 4 ==> x ^ 2 < 4) by(bit_vector);
        }
    }
    assert(codes_ok(r2)) by {
        assert forall|i: int| 0 <= i < r2.len() implies #[trigger] r2[i] < 4 by {
            let x = c2[c2.len() - 1 - i];
            assert(x < 4 ==> x ^ 2 < 4) by(bit_vector);
        }
    }
    assert(b < 4 ==> b ^ 2 < 4) by(bit_vector);
    // r2 = [comp(b)] ++ r[0..k-1]
    let rlo = r.subrange(h + 1, k);
    let rup = r.subrange(0, h);
    // lower: r2[h+1..k] = [r[h]] ++ rlo.drop_last()
    assert(r2.subrange(h + 1, k) =~= seq![r[h]] + rlo.drop_last());
    lemma_pack_cons(r[h], rlo.drop_last());
    lemma_pack_drop_last(rlo);
    lemma_pack_bound(rlo);
    let rl = pack(rlo);
    let rm = r[h] as ${W};
    let sh = (2 * (h - 1)) as ${W};
    assert((rm << sh) | (rl >> 2) == ((rl >> 2) | (rm << sh)) & mk) by(bit_vector)
        requires rl & !mk == 0, rm < 4, mk == ((1${W} << hh) - 1) as ${W}, hh == sh + 2, 2 <= sh <= ${HB2};
    // upper: r2[0..h] = [comp(b)] ++ rup.drop_last()
    assert(r2.subrange(0, h) =~= seq![b ^ 2] + rup.drop_last());
    lemma_pack_cons(b ^ 2, rup.drop_last());
    lemma_pack_drop_last(rup);
    lemma_pack_bound(rup);
    let ru = pack(rup);
    let cb = (b ^ 2) as ${W};
    let s2 = (2 * (2 * h - 1)) as ${W};
    assert(((cb << sh) | (ru >> 2)) << hh == (((ru << hh) >> 2) | (cb << s2)) & (mk << hh)) by(bit_vector)
        requires ru & !mk == 0, cb < 4, mk == ((1${W} << hh) - 1) as ${W}, hh == sh + 2, s2 == hh + sh, 2 <= sh <= ${HB2};
}
