impl<'a> AlnWriter<'a> {
    spec fn h(&self) -> int { self.half_split_len as int }
    spec fn hist(&self) -> Seq<(u8, usize)> { self._middle_out@ }
    spec fn r(&self) -> Seq<Vec<u8>> { self.ref_seq@ }
    spec fn cur_len(&self) -> int {
        if self.curr_chrom < self.r().len() { self.r()[self.curr_chrom as int]@.len() as int } else { 0 }
    }
    spec fn has_cur(&self) -> bool {
        self.hist().len() > 0 && self.hist().last().1 >= self.chrom_offset
    }
    // reference byte at absolute position a that lies in the current contig
    spec fn refc(&self, a: int) -> u8 {
        self.r()[self.curr_chrom as int]@[a - self.chrom_offset]
    }

    spec fn structural(&self) -> bool {
        &&& self.arith()
        &&& self.hist_ok()
    }

    spec fn arith(&self) -> bool {
        &&& 1 <= self.h() <= 31
        &&& self.curr_chrom <= self.r().len()
        &&& self.r().len() <= usize::MAX
        &&& self.chrom_offset == off(self.r(), self.curr_chrom as int)
        &&& self.seq_out@.len() == off(self.r(), self.r().len() as int)
        &&& self.seq_out@.len() < usize::MAX - 128
        &&& self.last_written <= self.seq_out@.len()
        &&& self.last_mapped <= self.seq_out@.len()
    }

    #[verifier::opaque]
    spec fn hist_ok(&self) -> bool {
        &&& sorted(self.hist())
        &&& (forall|j: int| 0 <= j < self.hist().len() && #[trigger] self.hist()[j].1 < self.chrom_offset ==> self.hist()[j].1 + self.h() < self.chrom_offset)
        &&& (forall|j: int| 0 <= j < self.hist().len() && #[trigger] self.hist()[j].1 >= self.chrom_offset ==>
                self.curr_chrom < self.r().len() && self.hist()[j].1 >= self.chrom_offset + self.h() && self.hist()[j].1 + self.h() < self.chrom_offset + self.cur_len())
    }

    spec fn cat_all(&self) -> Seq<u8> { cat(self.r(), self.r().len() as int) }

    spec fn flank(&self, a: int) -> u8 {
        if covered(self.hist(), self.h(), a) { self.cat_all()[a] } else { 0x2du8 }
    }

    #[verifier::opaque]
    spec fn content(&self) -> bool {
        let o = self.chrom_offset as int;
        let lw = self.last_written as int;
        let lm = self.last_mapped as int;
        let h = self.h();
        let n = self.seq_out@.len() as int;
        &&& (forall|a: int| 0 <= a < o && !is_mid(self.hist(), a) ==> #[trigger] self.seq_out@[a] == self.flank(a))
        &&& (self.has_cur() ==> {
                &&& o + lm == self.hist().last().1
                &&& is_mid(self.hist(), o + lw)
                &&& h <= lw <= lm <= lw + h
                &&& self.next_pos == lw + h + 1
                &&& (forall|a: int| o <= a <= o + lw && !is_mid(self.hist(), a) ==> #[trigger] self.seq_out@[a] == self.flank(a))
                &&& (forall|a: int| o + lw < a < n ==> #[trigger] self.seq_out@[a] == 0x2du8)
                &&& (forall|a: int| o + lw < a < n ==> (#[trigger] covered(self.hist(), h, a) <==> a <= o + lm + h))
            })
        &&& (!self.has_cur() ==> {
                &&& self.next_pos == h
                &&& (lw == 0 || lm + h <= lw)
                &&& (forall|a: int| o <= a < n ==> #[trigger] self.seq_out@[a] == 0x2du8)
            })
    }

    spec fn wf(&self) -> bool {
        &&& self.structural()
        &&& self.content()
        &&& !self.finalised
    }
    // absolute positions before contig c are entirely '-' or flank in a finished writer
    spec fn final_val(&self, a: int) -> u8 {
        if is_mid(self.hist(), a) {
            let j = choose|j: int| 0 <= j < self.hist().len() && #[trigger] self.hist()[j].1 == a;
            self.hist()[j].0
        } else {
            self.flank(a)
        }
    }

    spec fn in_rep(&self, a: int) -> bool {
        exists|i: int| 0 <= i < self.repeat_regions@.len() && #[trigger] self.repeat_regions@[i] == a
    }

    // the same, phrased as the property states it: the *upper-case* reference base in the flanks
    spec fn final_val_u(&self, a: int) -> u8 {
        if is_mid(self.hist(), a) {
            let j = choose|j: int| 0 <= j < self.hist().len() && #[trigger] self.hist()[j].1 == a;
            self.hist()[j].0
        } else if covered(self.hist(), self.h(), a) { upper(self.cat_all()[a]) } else { 0x2du8 }
    }
}
