/// R3 stand-in for std::vec::Vec: at most CAP elements in an inline array, same interface (the slice methods come
/// through Deref exactly as for std's Vec).  Writing past CAP is an index-out-of-bounds failure, never silent.
pub const CAP: usize = 4;
#[derive(Clone, Copy, Debug)]
pub struct Vec<T> { a: [T; CAP], n: usize }
impl<T: Copy + Default> Vec<T> {
    pub fn new() -> Self { Vec { a: [T::default(); CAP], n: 0 } }
    pub fn push(&mut self, x: T) { self.a[self.n] = x; self.n += 1; }
    pub fn pop(&mut self) -> Option<T> {
        if self.n == 0 { None } else { self.n -= 1; Some(self.a[self.n]) }
    }
    pub fn swap_remove(&mut self, i: usize) -> T {
        let x = self.a[..self.n][i];
        self.a[i] = self.a[self.n - 1];
        self.n -= 1;
        x
    }
    pub fn clear(&mut self) { self.n = 0; }
    pub fn truncate(&mut self, len: usize) { if len < self.n { self.n = len; } }
    pub fn remove(&mut self, i: usize) -> T {
        let x = self.a[i];
        let mut j = i;
        while j + 1 < self.n { self.a[j] = self.a[j + 1]; j += 1; }
        self.n -= 1;
        x
    }
}
impl<T: Copy + Default> Default for Vec<T> {
    fn default() -> Self { Vec::new() }
}
impl<T> core::ops::Deref for Vec<T> {
    type Target = [T];
    fn deref(&self) -> &[T] { &self.a[..self.n] }
}
impl<T> core::ops::DerefMut for Vec<T> {
    fn deref_mut(&mut self) -> &mut [T] { &mut self.a[..self.n] }
}
