// ---------- C02: strand and case symmetry, stated over the contracts of SplitKmer (spec level) ----------
pub proof fn lemma_rcc_involution(c: Seq<u8>)
    requires codes_ok(c)
    ensures rcc(rcc(c)) =~= c
{
    assert forall|i: int| 0 <= i < c.len() implies rcc(rcc(c))[i] == c[i] by {
        let x = c[i];
        assert((x ^ 2) ^ 2 == x) by(bit_vector);
    }
}

// the packed split k-mer determines both arms
pub proof fn lemma_fwd_val_inj(c: Seq<u8>, d: Seq<u8>)
    requires codes_ok(c), codes_ok(d), c.len() == d.len(), c.len() % 2 == 1, 5 <= c.len() <= ${KMAX}
    ensures ({
        let h = (c.len() - 1) / 2;
        (fwd_val(c) == fwd_val(d)) == (pack(c.subrange(0, h)) == pack(d.subrange(0, h))
            && pack(c.subrange(h + 1, c.len() as int)) == pack(d.subrange(h + 1, c.len() as int)))
    })
{
    let h = (c.len() - 1) / 2;
    let k = c.len() as int;
    let a = pack(c.subrange(0, h)); let b = pack(c.subrange(h + 1, k));
    let x = pack(d.subrange(0, h)); let y = pack(d.subrange(h + 1, k));
    lemma_pack_bound(c.subrange(0, h)); lemma_pack_bound(c.subrange(h + 1, k));
    lemma_pack_bound(d.subrange(0, h)); lemma_pack_bound(d.subrange(h + 1, k));
    let hh = (2 * h) as ${W};
    let mk = ((1${W} << hh) - 1) as ${W};
    assert(mask(2 * h) == mk);
    assert((((a << hh) | b) == ((x << hh) | y)) == (a == x && b == y)) by(bit_vector)
        requires a & !mk == 0, b & !mk == 0, x & !mk == 0, y & !mk == 0, mk == ((1${W} << hh) - 1) as ${W}, 4 <= hh <= ${HB};
}

// a window and its reverse complement give the same canonical k-mer; the reported middle base is the same,
// except when the k-mer is its own reverse complement: then both are flagged palindromic and the two middle
// bases are complements of each other, i.e. fall in the same class {A,T} / {C,G} -> same stored W / S / N
pub proof fn lemma_canon_strand(c: Seq<u8>, a: (${W}, u8, bool), b: (${W}, u8, bool))
    requires
        codes_ok(c), c.len() % 2 == 1, 5 <= c.len() <= ${KMAX},
        canon_ok(c, true, a),          // what the iterator may report on the window
        canon_ok(rcc(c), true, b),     // ... and on its reverse complement
    ensures ({
        let h = (c.len() - 1) / 2;
        &&& a.0 == b.0
        &&& palin(c) == (fwd_val(c) == fwd_val(rcc(c)))
        &&& palin(rcc(c)) == palin(c)
        &&& !palin(c) ==> a.1 == b.1
        &&& palin(c) ==> (a.1 == c[h] || a.1 == c[h] ^ 2) && (b.1 == c[h] || b.1 == c[h] ^ 2)
                && ((a.1 == 0 || a.1 == 2) == (b.1 == 0 || b.1 == 2))
    })
{
    let h = (c.len() - 1) / 2;
    let r = rcc(c);
    lemma_rcc_codes_ok(c);
    lemma_rcc_involution(c);
    assert(rcc(r) == c);
    lemma_fwd_val_inj(c, r);
    lemma_fwd_val_inj(r, c);
    let x = c[h];
    assert(r[h] == c[c.len() - 1 - h] ^ 2);
    assert(x < 4 ==> ((x == 0 || x == 2) == ((x ^ 2) == 0 || (x ^ 2) == 2)) && (x ^ 2) ^ 2 == x) by(bit_vector);
}

// ---- reverse-complementing a whole record mirrors its windows
pub open spec fn is_acgtn(b: u8) -> bool {
    b == 65 || b == 67 || b == 71 || b == 84 || b == 78 || b == 97 || b == 99 || b == 103 || b == 116 || b == 110
}
pub open spec fn comp_byte(b: u8) -> u8 {
    if b == 65 { 84 } else if b == 84 { 65 } else if b == 67 { 71 } else if b == 71 { 67 }
    else if b == 97 { 116 } else if b == 116 { 97 } else if b == 99 { 103 } else if b == 103 { 99 } else { b }
}
pub open spec fn rc_bytes(s: Seq<u8>) -> Seq<u8> { Seq::new(s.len(), |i: int| comp_byte(s[s.len() - 1 - i])) }

pub proof fn lemma_comp_byte(b: u8)
    requires is_acgtn(b)
    ensures
        is_acgtn(comp_byte(b)),
        s_valid_base(comp_byte(b)) == s_valid_base(b),
        s_valid_base(b) ==> enc(comp_byte(b)) == enc(b) ^ 2,
{
    assert(is_acgtn(b) ==> (
        (comp_byte(b) & 0xF != 14) == (b & 0xF != 14)
        && ((b & 0xF != 14) ==> ((comp_byte(b) >> 1) & 0x3) == ((b >> 1) & 0x3) ^ 2))) by {
        assert(((65u8 >> 1) & 3) == 0 && ((84u8 >> 1) & 3) == 2 && ((67u8 >> 1) & 3) == 1 && ((71u8 >> 1) & 3) == 3
            && ((97u8 >> 1) & 3) == 0 && ((116u8 >> 1) & 3) == 2 && ((99u8 >> 1) & 3) == 1 && ((103u8 >> 1) & 3) == 3
            && (0u8 ^ 2) == 2 && (2u8 ^ 2) == 0 && (1u8 ^ 2) == 3 && (3u8 ^ 2) == 1
            && (65u8 & 0xF) != 14 && (84u8 & 0xF) != 14 && (67u8 & 0xF) != 14 && (71u8 & 0xF) != 14
            && (97u8 & 0xF) != 14 && (116u8 & 0xF) != 14 && (99u8 & 0xF) != 14 && (103u8 & 0xF) != 14
            && (78u8 & 0xF) == 14 && (110u8 & 0xF) == 14) by(bit_vector);
    }
}

// case does not matter: same code, same N test, for every byte
pub proof fn lemma_case_blind(b: u8)
    ensures enc(b ^ 0x20) == enc(b), s_valid_base(b ^ 0x20) == s_valid_base(b)
{
    assert((((b ^ 0x20) >> 1) & 0x3) == ((b >> 1) & 0x3)) by(bit_vector);
    assert(((b ^ 0x20) & 0xF) == (b & 0xF)) by(bit_vector);
}

// window p of the reverse-complemented record is window n-p-k of the record, reverse-complemented
// (FASTA input: no quality string)
pub proof fn lemma_revcomp_window(s: Seq<u8>, k: int, p: int)
    requires
        forall|i: int| 0 <= i < s.len() ==> is_acgtn(#[trigger] s[i]),
        1 <= k, 0 <= p, p + k <= s.len(),
    ensures
        window_ok(rc_bytes(s), None, false, 0, p, k) == window_ok(s, None, false, 0, s.len() - p - k, k),
        window_ok(s, None, false, 0, s.len() - p - k, k) ==>
            codes(rc_bytes(s).subrange(p, p + k)) =~= rcc(codes(s.subrange(s.len() - p - k, s.len() - p))),
{
    let n = s.len() as int;
    let t = rc_bytes(s);
    let q0 = n - p - k;
    assert forall|i: int| 0 <= i < n implies s_valid_base(#[trigger] t[i]) == s_valid_base(s[n - 1 - i]) by {
        lemma_comp_byte(s[n - 1 - i]);
    }
    if window_ok(s, None, false, 0, q0, k) {
        assert forall|q: int| p <= q < p + k implies pos_ok(t, None, false, 0, q) by {
            assert(pos_ok(s, None, false, 0, n - 1 - q));
            assert(s_valid_base(t[q]) == s_valid_base(s[n - 1 - q]));
        }
        let a = codes(t.subrange(p, p + k));
        let b = rcc(codes(s.subrange(q0, n - p)));
        assert forall|j: int| 0 <= j < k implies a[j] == b[j] by {
            lemma_comp_byte(s[n - 1 - (p + j)]);
            assert(pos_ok(s, None, false, 0, n - 1 - (p + j)));
            assert(t.subrange(p, p + k)[j] == t[p + j]);
            assert(s.subrange(q0, n - p)[k - 1 - j] == s[n - 1 - (p + j)]);
        }
    }
    if window_ok(t, None, false, 0, p, k) {
        assert forall|q: int| q0 <= q < q0 + k implies pos_ok(s, None, false, 0, q) by {
            assert(pos_ok(t, None, false, 0, n - 1 - q));
            assert(s_valid_base(t[n - 1 - q]) == s_valid_base(s[n - 1 - (n - 1 - q)]));
        }
    }
}
