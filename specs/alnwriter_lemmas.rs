pub proof fn lemma_push_cov(hist: Seq<(u8, usize)>, h: int, e: (u8, usize), a: int)
    ensures covered(hist.push(e), h, a) <==> (covered(hist, h, a) || (e.1 - h <= a && a <= e.1 + h))
{
    let hp = hist.push(e);
    if covered(hist, h, a) {
        let j = choose|j: int| 0 <= j < hist.len() && #[trigger] hist[j].1 - h <= a && a <= hist[j].1 + h;
        assert(hp[j] == hist[j]);
        assert(0 <= j < hp.len() && hp[j].1 - h <= a && a <= hp[j].1 + h);
    }
    if e.1 - h <= a && a <= e.1 + h {
        let j = hist.len() as int;
        assert(hp[j] == e);
        assert(0 <= j < hp.len() && hp[j].1 - h <= a && a <= hp[j].1 + h);
    }
    if covered(hp, h, a) {
        let j = choose|j: int| 0 <= j < hp.len() && #[trigger] hp[j].1 - h <= a && a <= hp[j].1 + h;
        if j < hist.len() {
            assert(hp[j] == hist[j]);
            assert(0 <= j < hist.len() && hist[j].1 - h <= a && a <= hist[j].1 + h);
        } else {
            assert(hp[j] == e);
        }
    }
}

pub proof fn lemma_push_mid(hist: Seq<(u8, usize)>, e: (u8, usize), a: int)
    ensures is_mid(hist.push(e), a) <==> (is_mid(hist, a) || e.1 == a)
{
    let hp = hist.push(e);
    if is_mid(hist, a) {
        let j = choose|j: int| 0 <= j < hist.len() && #[trigger] hist[j].1 == a;
        assert(hp[j] == hist[j]);
        assert(0 <= j < hp.len() && hp[j].1 == a);
    }
    if e.1 == a {
        let j = hist.len() as int;
        assert(hp[j] == e);
        assert(0 <= j < hp.len() && hp[j].1 == a);
    }
    if is_mid(hp, a) {
        let j = choose|j: int| 0 <= j < hp.len() && #[trigger] hp[j].1 == a;
        if j < hist.len() {
            assert(hp[j] == hist[j]);
            assert(0 <= j < hist.len() && hist[j].1 == a);
        } else {
            assert(hp[j] == e);
        }
    }
}

// all entries of a sorted history are <= its last entry
pub proof fn lemma_cov_bound(hist: Seq<(u8, usize)>, h: int, a: int)
    requires sorted(hist), hist.len() > 0, covered(hist, h, a)
    ensures a <= hist.last().1 + h
{
    let j = choose|j: int| 0 <= j < hist.len() && #[trigger] hist[j].1 - h <= a && a <= hist[j].1 + h;
    if j < hist.len() - 1 {
        assert(hist[j].1 < hist[hist.len() - 1].1);
    }
}

pub proof fn lemma_mid_cov(hist: Seq<(u8, usize)>, h: int, m: int, a: int)
    requires is_mid(hist, m), m - h <= a <= m + h
    ensures covered(hist, h, a)
{
    let j = choose|j: int| 0 <= j < hist.len() && #[trigger] hist[j].1 == m;
    assert(0 <= j < hist.len() && hist[j].1 - h <= a && a <= hist[j].1 + h);
}

// frame: everything but the listed fields is as in g0, history extended by e
spec fn pushed(g0: AlnWriter, g: AlnWriter, e: (u8, usize)) -> bool {
    &&& g.curr_chrom == g0.curr_chrom
    &&& g.chrom_offset == g0.chrom_offset
    &&& g.ref_seq == g0.ref_seq
    &&& g.half_split_len == g0.half_split_len
    &&& g.finalised == g0.finalised
    &&& g.repeat_regions == g0.repeat_regions
    &&& g.mask_ambig == g0.mask_ambig
    &&& g._middle_out@ == g0._middle_out@.push(e)
    &&& g.seq_out@.len() == g0.seq_out@.len()
}

spec fn call_ok(g0: AlnWriter, pos: int, e: (u8, usize)) -> bool {
    &&& g0.wf()
    &&& g0.curr_chrom < g0.r().len()
    &&& g0.h() <= pos
    &&& pos + g0.h() < g0.cur_len()
    &&& (g0.hist().len() > 0 ==> g0.hist().last().1 < g0.chrom_offset + pos)
    &&& e.1 == g0.chrom_offset + pos
}

proof fn lemma_hist_facts(g0: AlnWriter, g: AlnWriter, pos: int, e: (u8, usize))
    requires call_ok(g0, pos, e), pushed(g0, g, e)
    ensures
        sorted(g.hist()),
        g.has_cur(),
        g.hist().last() == e,
        forall|a: int| #[trigger] covered(g.hist(), g0.h(), a) <==> (covered(g0.hist(), g0.h(), a) || (g0.chrom_offset + pos - g0.h() <= a && a <= g0.chrom_offset + pos + g0.h())),
        forall|a: int| #[trigger] is_mid(g.hist(), a) <==> (is_mid(g0.hist(), a) || a == g0.chrom_offset + pos),
        !g0.has_cur() ==> (forall|a: int| a >= g0.chrom_offset ==> !#[trigger] covered(g0.hist(), g0.h(), a)),
        g0.has_cur() ==> (forall|a: int| #[trigger] covered(g0.hist(), g0.h(), a) ==> a <= g0.chrom_offset + g0.last_mapped + g0.h()),
        g0.has_cur() ==> (forall|a: int| g0.chrom_offset + g0.last_written - g0.h() <= a <= g0.chrom_offset + g0.last_written ==> #[trigger] covered(g0.hist(), g0.h(), a)),
        g.hist_ok(),
{
    reveal(AlnWriter::content);
    reveal(AlnWriter::hist_ok);
    let o = g0.chrom_offset as int;
    let h = g0.h();
    let h0 = g0.hist();
    let h1 = g.hist();
    assert(h1 == h0.push(e));
    assert forall|a: int| #[trigger] covered(h1, h, a) <==> (covered(h0, h, a) || (o + pos - h <= a && a <= o + pos + h)) by {
        lemma_push_cov(h0, h, e, a);
    }
    assert forall|a: int| #[trigger] is_mid(h1, a) <==> (is_mid(h0, a) || a == o + pos) by {
        lemma_push_mid(h0, e, a);
    }
    assert forall|i: int, j: int| 0 <= i < j < h1.len() implies h1[i].1 < h1[j].1 by {
        if j < h0.len() {
            assert(h1[i] == h0[i] && h1[j] == h0[j]);
        } else {
            assert(h1[i] == h0[i]);
            if i < h0.len() - 1 { assert(h0[i].1 < h0[h0.len() - 1].1); }
        }
    }
    if !g0.has_cur() {
        assert forall|a: int| a >= o implies !#[trigger] covered(h0, h, a) by {
            if covered(h0, h, a) {
                let j = choose|j: int| 0 <= j < h0.len() && #[trigger] h0[j].1 - h <= a && a <= h0[j].1 + h;
                if j < h0.len() - 1 { assert(h0[j].1 < h0[h0.len() - 1].1); }
            }
        }
    } else {
        assert forall|a: int| #[trigger] covered(h0, h, a) implies a <= o + g0.last_mapped + h by {
            lemma_cov_bound(h0, h, a);
        }
        assert forall|a: int| o + g0.last_written - h <= a <= o + g0.last_written implies #[trigger] covered(h0, h, a) by {
            lemma_mid_cov(h0, h, o + g0.last_written, a);
        }
    }
    assert forall|j: int| 0 <= j < h1.len() && #[trigger] h1[j].1 < g.chrom_offset implies h1[j].1 + g.h() < g.chrom_offset by {
        if j < h0.len() { assert(h1[j] == h0[j]); }
    }
    assert forall|j: int| 0 <= j < h1.len() && #[trigger] h1[j].1 >= g.chrom_offset implies
                g.curr_chrom < g.r().len() && h1[j].1 >= g.chrom_offset + g.h() && h1[j].1 + g.h() < g.chrom_offset + g.cur_len() by {
        if j < h0.len() { assert(h1[j] == h0[j]); }
    }
}

proof fn lemma_wsk_deferred(g0: AlnWriter, g: AlnWriter, pos: int, e: (u8, usize))
    requires
        call_ok(g0, pos, e), pushed(g0, g, e),
        pos < g0.next_pos,
        g.seq_out@ == g0.seq_out@,
        g.next_pos == g0.next_pos,
        g.last_written == g0.last_written,
        g.last_mapped == pos,
    ensures g.wf()
{
    reveal(AlnWriter::content);
    lemma_hist_facts(g0, g, pos, e);
    lemma_off_mono(g0.r(), g0.curr_chrom as int, g0.r().len() as int);
    assert(g0.has_cur());
    assert(g.cat_all() == g0.cat_all());
    let o = g.chrom_offset as int;
    let lw = g.last_written as int;
    let lm = g.last_mapped as int;
    let h = g.h();
    let n = g.seq_out@.len() as int;
    assert(g.structural());
    assert(!g.finalised);
    assert(o + lm == g.hist().last().1);
    assert(is_mid(g.hist(), o + lw));
    assert(h <= lw <= lm <= lw + h);
    assert(g.next_pos == lw + h + 1);
    assert(forall|a: int| 0 <= a < o && !is_mid(g.hist(), a) ==> #[trigger] g.seq_out@[a] == g.flank(a));
    assert(forall|a: int| o <= a <= o + lw && !is_mid(g.hist(), a) ==> #[trigger] g.seq_out@[a] == g.flank(a));
    assert(forall|a: int| o + lw < a < n ==> #[trigger] g.seq_out@[a] == 0x2du8);
    assert(forall|a: int| o + lw < a < n ==> (#[trigger] covered(g.hist(), h, a) <==> a <= o + lm + h));
}

proof fn lemma_wsk_write(g0: AlnWriter, g2: AlnWriter, g: AlnWriter, pos: int, e: (u8, usize))
    requires
        call_ok(g0, pos, e), pushed(g0, g, e),
        pos >= g0.next_pos,
        g.next_pos == pos + g0.h() + 1,
        g.last_written == pos,
        g.last_mapped == pos,
        g2.seq_out@.len() == g0.seq_out@.len(),
        // g2 = after the optional fill
        ({
            let o = g0.chrom_offset as int;
            let lw = g0.last_written as int;
            let over = if g0.last_mapped + g0.h() >= lw { g0.last_mapped + g0.h() - lw } else { 0 };
            let mx = pos - g0.h();
            let e2 = if lw + 1 + over <= mx { lw + 1 + over } else { mx };
            if pos > g0.next_pos && lw > 0 && e2 > lw + 1 {
                forall|a: int| 0 <= a < g0.seq_out@.len() ==> #[trigger] g2.seq_out@[a] ==
                            (if o + lw + 1 <= a < o + e2 { g0.cat_all()[a] } else { g0.seq_out@[a] })
            } else {
                g2.seq_out@ == g0.seq_out@
            }
        }),
        forall|a: int| 0 <= a < g0.seq_out@.len() ==> #[trigger] g.seq_out@[a] ==
            (if g0.chrom_offset + pos - g0.h() <= a < g0.chrom_offset + pos { g0.cat_all()[a] } else { g2.seq_out@[a] }),
    ensures g.wf()
{
    reveal(AlnWriter::content);
    lemma_hist_facts(g0, g, pos, e);
    lemma_off_mono(g0.r(), g0.curr_chrom as int, g0.r().len() as int);
    assert(g.cat_all() == g0.cat_all());
}

pub open spec fn cat(r: Seq<Vec<u8>>, c: int) -> Seq<u8>
    decreases c
{
    if c <= 0 { Seq::<u8>::empty() } else { cat(r, c - 1) + r[c - 1]@ }
}

pub proof fn lemma_cat_len(r: Seq<Vec<u8>>, c: int)
    requires 0 <= c <= r.len()
    ensures cat(r, c).len() == off(r, c)
    decreases c
{
    if c > 0 { lemma_cat_len(r, c - 1); }
}

pub proof fn lemma_off_mono(r: Seq<Vec<u8>>, c: int, d: int)
    requires 0 <= c <= d <= r.len()
    ensures off(r, c) <= off(r, d), c < d ==> off(r, c) + r[c]@.len() <= off(r, d)
    decreases d
{
    if c < d {
        lemma_off_mono(r, c, d - 1);
    }
}

// bytes of contig c sit at [off(c), off(c)+len) of the concatenation of n >= c+1 contigs
pub proof fn lemma_cat_index(r: Seq<Vec<u8>>, c: int, n: int, p: int)
    requires 0 <= c < n <= r.len(), 0 <= p < r[c]@.len()
    ensures cat(r, n)[off(r, c) + p] == r[c]@[p], off(r, c) + p < cat(r, n).len()
    decreases n
{
    lemma_cat_len(r, n);
    lemma_cat_len(r, n - 1);
    lemma_off_mono(r, c, n);
    if c < n - 1 {
        lemma_cat_index(r, c, n - 1, p);
        lemma_off_mono(r, c, n - 1);
    }
}

pub proof fn lemma_cat_index_all(r: Seq<Vec<u8>>, c: int)
    requires 0 <= c < r.len()
    ensures forall|a: int| off(r, c) <= a < off(r, c) + r[c]@.len() ==> #[trigger] cat(r, r.len() as int)[a] == r[c]@[a - off(r, c)]
{
    assert forall|a: int| off(r, c) <= a < off(r, c) + r[c]@.len() implies #[trigger] cat(r, r.len() as int)[a] == r[c]@[a - off(r, c)] by {
        lemma_cat_index(r, c, r.len() as int, a - off(r, c));
    }
}

pub proof fn lemma_cat_upper(r: Seq<Vec<u8>>, n: int)
    requires ref_upper(r), 0 <= n <= r.len()
    ensures forall|a: int| 0 <= a < cat(r, n).len() ==> #[trigger] cat(r, n)[a] == upper(cat(r, n)[a])
    decreases n
{
    if n > 0 {
        lemma_cat_upper(r, n - 1);
        let pre = cat(r, n - 1);
        assert forall|a: int| 0 <= a < cat(r, n).len() implies #[trigger] cat(r, n)[a] == upper(cat(r, n)[a]) by {
            if a >= pre.len() {
                assert(cat(r, n)[a] == r[n - 1]@[a - pre.len()]);
            } else {
                assert(cat(r, n)[a] == pre[a]);
            }
        }
    }
}

// the state built by `new`'s struct literal satisfies the invariant — so `new`'s assumed contract only
// assumes what the literal says plus total_size == sum of the contig lengths
proof fn lemma_initial_wf(w: AlnWriter)
    requires
        w.next_pos == w.half_split_len, w.curr_chrom == 0, w.last_mapped == 0, w.last_written == 0, w.chrom_offset == 0,
        w.seq_out@.len() == off(w.r(), w.r().len() as int),
        forall|a: int| 0 <= a < w.seq_out@.len() ==> #[trigger] w.seq_out@[a] == 0x2du8,
        !w.finalised, w._middle_out@.len() == 0,
        1 <= w.half_split_len <= 31, w.seq_out@.len() < usize::MAX - 128, w.r().len() <= usize::MAX,
    ensures w.wf()
{
    reveal(AlnWriter::content);
    reveal(AlnWriter::hist_ok);
}
