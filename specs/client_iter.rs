// ---------- CLIENT of the contracts above (this function is NOT code from /repo) ----------
// It only calls SplitKmer::new / get_middle_pos / get_next_kmer through their contracts and shows what they add up
// to — the "iteration lemma" of C01: creating the iterator and calling get_next_kmer until None visits exactly the
// windows of k acceptable bases of the record, each once, in increasing order (including one that ends at the
// record end), and no other position.  SkaDict::add_file_kmers and RefSka::new drive the iterator in this way.
fn client_enumerate_windows<'a>(seq: &'a [u8], k: usize, rc: bool) -> (starts: Vec<usize>)
    requires 5 <= k <= ${KMAX}, k % 2 == 1, seq@.len() < usize::MAX - 64
    ensures
        forall|i: int, j: int| 0 <= i < j < starts@.len() ==> starts@[i] < starts@[j],
        forall|i: int| 0 <= i < starts@.len() ==> starts@[i] + k <= seq@.len() && window_ok(seq@, None::<&[u8]>, false, 0, #[trigger] starts@[i] as int, k as int),
        forall|p: int| 0 <= p && p + k <= seq@.len() && window_ok(seq@, None::<&[u8]>, false, 0, p, k as int)
            ==> exists|i: int| 0 <= i < starts@.len() && #[trigger] starts@[i] == p,
{
    let mut starts: Vec<usize> = Vec::new();
    let it = SplitKmer::new(seq, seq.len(), None, k, rc, 0, QualFilter::NoFilter, false);
    match it {
        None => { }
        Some(mut s) => {
            let h = (k - 1) / 2;
            proof {
                assert(!s.strict());
                assert(forall|q: int| #![trigger window_ok(seq@, None::<&[u8]>, false, 0, q, k as int)] s.wok(q) == window_ok(seq@, None::<&[u8]>, false, 0, q, k as int));
            }
            let p0 = s.get_middle_pos() - h;
            starts.push(p0);
            let ghost mut lastp: int = p0 as int;
            let mut more = true;
            proof {
                assert forall|p: int| 0 <= p <= lastp && window_ok(seq@, None::<&[u8]>, false, 0, p, k as int)
                    implies exists|i: int| 0 <= i < starts@.len() && #[trigger] starts@[i] == p by {
                    assert(s.wok(p));
                    assert(p == lastp);
                    assert(starts@[0] == p);
                }
            }
            while more
                invariant
                    5 <= k <= ${KMAX}, k % 2 == 1, h == (k - 1) / 2,
                    starts@.len() >= 1, starts@[starts@.len() - 1] == lastp,
                    0 <= lastp, lastp + k <= seq@.len(),
                    more ==> s.inv() && s.p() == lastp && s.seq@ == seq@ && s.k == k && s.qual == None::<&[u8]>
                        && s.qual_filter == QualFilter::NoFilter && s.min_qual == 0 && s.seq_len == seq@.len(),
                    forall|i: int, j: int| 0 <= i < j < starts@.len() ==> starts@[i] < starts@[j],
                    forall|i: int| 0 <= i < starts@.len() ==> starts@[i] + k <= seq@.len() && window_ok(seq@, None::<&[u8]>, false, 0, #[trigger] starts@[i] as int, k as int),
                    forall|p: int| 0 <= p <= lastp && window_ok(seq@, None::<&[u8]>, false, 0, p, k as int)
                        ==> exists|i: int| 0 <= i < starts@.len() && #[trigger] starts@[i] == p,
                    !more ==> forall|p: int| lastp < p && p + k <= seq@.len() ==> !window_ok(seq@, None::<&[u8]>, false, 0, p, k as int),
                decreases (seq@.len() - lastp) + (if more { 1int } else { 0int })
            {
                let ghost old_s = s;
                let ghost old_starts = starts@;
                proof {
                    assert(!s.strict());
                    assert(forall|q: int| #![trigger window_ok(seq@, None::<&[u8]>, false, 0, q, k as int)] s.wok(q) == window_ok(seq@, None::<&[u8]>, false, 0, q, k as int));
                }
                let nx = s.get_next_kmer();
                if nx.is_some() {
                    let p = s.get_middle_pos() - h;
                    starts.push(p);
                    proof {
                        assert(forall|q: int| lastp < q < p ==> !window_ok(seq@, None::<&[u8]>, false, 0, q, k as int));
                        assert forall|q: int| 0 <= q <= p && window_ok(seq@, None::<&[u8]>, false, 0, q, k as int)
                            implies exists|i: int| 0 <= i < starts@.len() && #[trigger] starts@[i] == q by {
                            if q == p {
                                assert(starts@[starts@.len() - 1] == q);
                            } else {
                                assert(q <= lastp);
                                let i = choose|i: int| 0 <= i < old_starts.len() && #[trigger] old_starts[i] == q;
                                assert(starts@[i] == q);
                            }
                        }
                        lastp = p as int;
                    }
                } else {
                    more = false;
                }
            }
        }
    }
    starts
}
