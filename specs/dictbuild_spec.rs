// ---------- SkaDict::add_file_kmers: what happens to ONE window (two fragments, R6) ----------
// The dictionary (hashbrown map) and the count filter (bloom + hashbrown table) are reduced to ghost logs of how
// they are used; their own code is outside reach (DESIGN §2).  `self` is renamed to the parameter `this`.
pub assume_specification [Ordering::is_eq] (o: Ordering) -> (r: bool)
    ensures r == (o == Ordering::Equal);

struct FilterLog {
    // window starts handed to the counting filter, and whether it answered "count reached"
    asked: Ghost<Seq<int>>,
    answers: Ghost<Seq<bool>>,
}
impl FilterLog {
    #[verifier::external_body]
    fn filter(&mut self, kmer: &SplitKmer) -> (r: Ordering)
        requires kmer.inv()
        ensures
            final(self).asked@ == old(self).asked@.push(kmer.p()),
            final(self).answers@ == old(self).answers@.push(r == Ordering::Equal),
    { unimplemented!() }
}

struct DictLog {
    k: usize,
    rc: bool,
    kmer_filter: FilterLog,
    // (split k-mer, encoded middle base, added through the palindrome path)
    adds: Ghost<Seq<(${W}, u8, bool)>>,
}
impl DictLog {
    #[verifier::external_body]
    fn add_to_dict(&mut self, kmer: ${W}, base: u8)
        ensures final(self).adds@ == old(self).adds@.push((kmer, base, false)),
            final(self).k == old(self).k, final(self).rc == old(self).rc, final(self).kmer_filter == old(self).kmer_filter
    { unimplemented!() }
    #[verifier::external_body]
    fn add_palindrome_to_dict(&mut self, kmer: ${W}, base: u8)
        ensures final(self).adds@ == old(self).adds@.push((kmer, base, true)),
            final(self).k == old(self).k, final(self).rc == old(self).rc, final(self).kmer_filter == old(self).kmer_filter
    { unimplemented!() }
}

// the middle base of the window passes the quality rule (none / middle / strict all test the middle base here;
// under `strict` every base of an emitted window has passed already)
spec fn middle_passes(it: SplitKmer) -> bool {
    it.qual.is_none() || it.qual_filter == QualFilter::NoFilter || qual_ok(it.qual, it.min_qual, it.p() + it.h())
}

// the contract of one window: the count filter is consulted exactly when the input is reads and the middle base
// passes the quality rule; the k-mer is added exactly when the input is FASTA, or the rule passes and the filter says
// the count is reached; it is added with its canonical k-mer / middle base, through the palindrome path exactly when
// it equals its own reverse complement
spec fn window_step_ok(old_d: DictLog, new_d: DictLog, it: SplitKmer, is_reads: bool) -> bool {
    let consulted = is_reads && middle_passes(it);
    &&& new_d.k == old_d.k && new_d.rc == old_d.rc
    &&& (consulted ==> new_d.kmer_filter.asked@ == old_d.kmer_filter.asked@.push(it.p())
            && new_d.kmer_filter.answers@.len() == old_d.kmer_filter.answers@.len() + 1
            && new_d.kmer_filter.answers@.subrange(0, old_d.kmer_filter.answers@.len() as int) == old_d.kmer_filter.answers@)
    &&& (!consulted ==> new_d.kmer_filter == old_d.kmer_filter)
    &&& ({
        let accepted = !is_reads || (consulted && new_d.kmer_filter.answers@.last());
        if accepted {
            exists|km: ${W}, b: u8, r: bool| canon_ok(it.win(), it.rc, (km, b, r))
                && new_d.adds@ == old_d.adds@.push((km, b, it.rc && palin(it.win())))
        } else {
            new_d.adds@ == old_d.adds@
        }
    })
}
