// Index-loop mirrors of NtHashIterator::new's two accumulation loops (the real ones use
// `iter().enumerate()` / `iter().rev().enumerate()`, which Verus cannot take).  This file is plain Rust:
//  * the Kani harness `nthash` includes it (inside src/ska_dict/nthash.rs of the scratch copy, so the real
//    HASH_LOOKUP / RC_HASH_LOOKUP / encode_base are what it uses) and checks, per k, that the REAL `new`
//    computes the same values;
//  * the Verus unit `kmer` extracts the same two functions from this file (via vx, like any other source)
//    and proves them equal to the spec folds fh_n / rh_n for every k.
// Together: real new == fh_n / rh_n.
fn nthash_fwd_mirror(seq: &[u8], k: usize) -> u64 {
    let mut fh: u64 = 0;
    let mut i: usize = 0;
    while i < k {
        fh ^= HASH_LOOKUP[encode_base(seq[i]) as usize].rotate_left((k - i - 1) as u32);
        i += 1;
    }
    fh
}

fn nthash_rev_mirror(seq: &[u8], k: usize) -> u64 {
    let mut h: u64 = 0;
    let mut i: usize = 0;
    while i < k {
        h ^= RC_HASH_LOOKUP[encode_base(seq[k - 1 - i]) as usize].rotate_left((k - i - 1) as u32);
        i += 1;
    }
    h
}
