"""Replay: turn a failed obligation into a concrete failing input on the real code where possible.
 * Kani obligations: the trace's concrete values (kani --concrete-playback=print) are stored in the replay file.
 * Verus obligations: executable mirrors of the contracts (crate /verif/replay, linked against a scratch copy of
   /repo's working tree) are searched over a small exhaustive domain.  Never decides a pass."""
import os, json, subprocess, time
from vlib import VERIF, REPO, WORK
import kanilib

RTARGET = os.environ.get("SKA_REPLAY_TARGET", os.path.join(WORK, "replay-target"))


def build_mirror():
    """build /verif/replay against a scratch copy of /repo's working tree; returns path of binary or None"""
    crate = os.path.join(VERIF, "replay")
    if not os.path.exists(os.path.join(crate, "Cargo.toml")):
        return None, "no replay crate"
    src = os.path.join(WORK, "replay-src")
    os.makedirs(src, exist_ok=True)
    subprocess.run(["rsync", "-rlp", "--checksum", "--delete", "--exclude", "target", "--exclude", ".git", REPO + "/", src + "/ska/"], check=True)
    subprocess.run(["rsync", "-rlp", "--checksum", "--delete", "--exclude", "target", crate + "/", src + "/mirror/"], check=True)
    lock = os.path.join(REPO, "Cargo.lock")
    env = dict(os.environ, CARGO_NET_OFFLINE="true", CARGO_TARGET_DIR=RTARGET)
    p = subprocess.run(["cargo", "build", "--release", "--offline"], cwd=os.path.join(src, "mirror"), env=env, capture_output=True, text=True)
    if p.returncode != 0:
        return None, "mirror crate does not build against this tree: " + p.stderr[-500:]
    return os.path.join(RTARGET, "release", "mirror"), ""


def mirror_targets(prop, failing):
    """which mirror sweeps to run for the failed obligations"""
    t = set()
    for f in failing:
        fn = f.get("fn", "")
        if f.get("kani"):
            continue
        if fn.startswith("SplitKmer::") or fn.startswith("UInt::") or fn.startswith("NtHashIterator::") or fn in ("encode_base", "decode_base", "rc_base", "valid_base"):
            t.add("kmer")
        if fn.startswith("AlnWriter::"):
            t.add("aln")
        if fn.startswith("IdxCheck") or fn == "Iterator::next":
            t.add("idx")
        if fn.startswith("repeat"):
            t.add("repeat")
    return sorted(t)


def search(prop, failing, kres, tier):
    out = {"input": None, "sweeps": []}
    # Kani counterexamples
    for f in failing:
        if f.get("kani") and kres.get("src"):
            h = f["fn"]
            from props import KANI_GROUPS
            gsrc = kres["src"]
            grp = f.get("kani_group")
            if grp and "fragment_unit" in KANI_GROUPS.get(grp, {}):
                gsrc = kres.get("frag_src", {}).get(grp, gsrc)
            pb = kanilib.concrete_playback(gsrc, h, extra_args=KANI_GROUPS.get(grp, {}).get("args"), group=grp)
            if pb:
                out["input"] = {"kind": "kani-concrete-playback", "harness": h, "unit_test": pb}
                return out
    targets = mirror_targets(prop, failing)
    if not targets:
        return out
    binp, err = build_mirror()
    if not binp:
        out["sweeps"].append({"error": err})
        return out
    for t in targets:
        try:
            p = subprocess.run([binp, "sweep", t, "thorough"], capture_output=True, text=True, timeout=900)  # the sweeps take seconds: always the full domain
        except subprocess.TimeoutExpired:
            out["sweeps"].append({"target": t, "error": "timeout"})
            continue
        last = [l for l in p.stdout.splitlines() if l.startswith("{")]
        rec = json.loads(last[-1]) if last else {"error": p.stderr[-300:]}
        rec["target"] = t
        out["sweeps"].append(rec)
        if rec.get("failing_input") and not out["input"]:
            out["input"] = {"kind": "mirror", "target": t, "input": rec["failing_input"]}
    return out


MIRRORS_OF = {"C01": ["kmer"], "C02": ["kmer"], "C12": ["kmer"], "C16": ["kmer"], "C04": ["aln", "tables"], "C05": ["idx"]}


def sweep_all(prop, cfg):
    """thorough tier: run every mirror sweep that belongs to the property"""
    out = {"input": None, "sweeps": []}
    targets = MIRRORS_OF.get(prop, [])
    if not targets:
        return out
    binp, err = build_mirror()
    if not binp:
        out["sweeps"].append({"error": err})
        return out
    for t in targets:
        try:
            p = subprocess.run([binp, "sweep", t, "thorough"], capture_output=True, text=True, timeout=1800)
        except subprocess.TimeoutExpired:
            out["sweeps"].append({"target": t, "error": "timeout"})
            continue
        last = [l for l in p.stdout.splitlines() if l.startswith("{")]
        rec = json.loads(last[-1]) if last else {"error": p.stderr[-300:]}
        rec["target"] = t
        out["sweeps"].append(rec)
        if rec.get("failing_input") and not out["input"]:
            out["input"] = {"kind": "mirror", "target": t, "input": rec["failing_input"]}
    return out


def run_replay_file(prop, path):
    """re-run exactly the input recorded in a replay file against the current tree; exit 1 if it still fails"""
    try:
        rp = json.load(open(path))
    except Exception as e:
        print(f"UNDECIDED property={prop} reason=cannot-read-replay {e}")
        return 2
    inp = (rp.get("replay") or {}).get("input")
    if not inp:
        print("replay file carries no concrete input; failed obligations were:")
        for f in rp.get("failed_obligations", []):
            print("  ", f.get("obligation"), "-", f.get("clause", "")[:200])
        print(f"VIOLATION property={prop} replay={path} no-failing-input-found")
        return 1
    if inp["kind"] == "kani-concrete-playback":
        print("Kani concrete playback test for harness", inp["harness"])
        print(inp["unit_test"])
        print(f"VIOLATION property={prop} replay={path}")
        return 1
    binp, err = build_mirror()
    if not binp:
        print(f"UNDECIDED property={prop} reason={err}")
        return 2
    p = subprocess.run([binp, "one", inp["target"], json.dumps(inp["input"], separators=(",", ":"))], capture_output=True, text=True)
    print(p.stdout.strip())
    if p.returncode == 1:
        print(f"VIOLATION property={prop} replay={path}")
        return 1
    print(f"OK property={prop} replayed input no longer fails")
    return 0
