"""Replay: turn a failed obligation into a concrete failing input on the real code where possible.
 * Kani obligations: the trace's concrete values (kani --concrete-playback=print) are stored in the replay file.
 * Verus obligations: executable mirrors of the contracts (crate /verif/replay, linked against a scratch copy of
   /repo's working tree) are searched over a small exhaustive domain.  Never decides a pass."""
import re
import os, json, subprocess, time, shutil
from vlib import VERIF, REPO, WORK
import kanilib

RTARGET = os.environ.get("SKA_REPLAY_TARGET", os.path.join(WORK, "replay-target"))


CUR_PROP = "x"


def build_mirror():
    """build /verif/replay against a scratch copy of /repo's working tree; returns path of binary or None.
    One copy and one target directory per property, so that checks running side by side do not share artefacts."""
    crate = os.path.join(VERIF, "replay")
    if not os.path.exists(os.path.join(crate, "Cargo.toml")):
        return None, "no replay crate"
    src = os.path.join(WORK, "replay-src", CUR_PROP)
    os.makedirs(src, exist_ok=True)
    subprocess.run(["rsync", "-rlp", "--checksum", "--delete", "--exclude", "target", "--exclude", ".git", REPO + "/", src + "/ska/"], check=True)
    subprocess.run(["rsync", "-rlp", "--checksum", "--delete", "--exclude", "target", crate + "/", src + "/mirror/"], check=True)
    lock = os.path.join(REPO, "Cargo.lock")
    rt = os.path.join(RTARGET, CUR_PROP)
    env = dict(os.environ, CARGO_NET_OFFLINE="true", CARGO_TARGET_DIR=rt)
    p = subprocess.run(["cargo", "build", "--release", "--offline"], cwd=os.path.join(src, "mirror"), env=env, capture_output=True, text=True)
    if p.returncode != 0:
        return None, "mirror crate does not build against this tree: " + p.stderr[-500:]
    return os.path.join(rt, "release", "mirror"), ""


def build_frag_mirror(name, unit, main_rs):
    """native build of a fragment lifted by vx (plain unit) plus a sweep driver kept in /verif/replay_frag"""
    from vlib import gen_unit
    d = os.path.join(WORK, "fragmirror", CUR_PROP, name)
    os.makedirs(os.path.join(d, "src"), exist_ok=True)
    gen = gen_unit(unit, None, outdir=os.path.join(WORK, "gen", "fragmirror"), vac=False)
    if gen["rc"] != 0:
        return None, "extraction: " + gen["out"].strip()[-300:]
    with open(os.path.join(d, "Cargo.toml"), "w") as f:
        f.write(f'[package]\nname = "fragmirror"\nversion = "0.0.0"\nedition = "2021"\n[lib]\npath = "src/lib.rs"\n[[bin]]\nname = "{name}_mirror"\npath = "src/main.rs"\n[workspace]\n')
    with open(os.path.join(d, "src", "lib.rs"), "w") as f:
        f.write("#![allow(unused)]\n" + open(gen["rs"]).read())
    shutil.copyfile(os.path.join(VERIF, "replay_frag", main_rs), os.path.join(d, "src", "main.rs"))
    env = dict(os.environ, CARGO_NET_OFFLINE="true", CARGO_TARGET_DIR=os.path.join(d, "target"))
    p = subprocess.run(["cargo", "build", "--release", "--offline"], cwd=d, env=env, capture_output=True, text=True)
    if p.returncode != 0:
        return None, "fragment mirror does not build against this tree: " + p.stderr[-400:]
    return os.path.join(d, "target", "release", f"{name}_mirror"), ""


FRAG_MIRRORS = {"repeat": ("repeatfrag_k", "repeat_main.rs")}


def mirror_targets(prop, failing):
    """which mirror sweeps to run for the failed obligations"""
    t = set()
    for f in failing:
        fn = f.get("fn", "")
        if f.get("kani"):
            continue
        if fn.startswith("SplitKmer::") or fn.startswith("UInt::") or fn.startswith("NtHashIterator::") or fn in ("encode_base", "decode_base", "rc_base", "valid_base"):
            t.add("kmer")
        if fn.startswith("AlnWriter::"):
            t.add("aln")
        if fn.startswith("IdxCheck") or fn == "Iterator::next":
            t.add("idx")
        if fn.startswith("RefSka::new.repeat_coords"):
            t.add("repeat")
    return sorted(t)


def search(prop, failing, kres, tier):
    global CUR_PROP
    CUR_PROP = prop
    out = {"input": None, "sweeps": []}
    # Kani counterexamples
    for f in failing:
        if f.get("kani") and kres.get("src"):
            h = f["fn"]
            from props import KANI_GROUPS
            gsrc = kres["src"]
            grp = f.get("kani_group")
            if grp and "fragment_unit" in KANI_GROUPS.get(grp, {}):
                gsrc = kres.get("frag_src", {}).get(grp, gsrc)
            # the same arguments the failing run had (a bounded entry may carry its own, e.g. an unwindset)
            pb = kanilib.concrete_playback(gsrc, h, extra_args=f.get("kani_args") or KANI_GROUPS.get(grp, {}).get("args"), group=grp)
            if pb:
                rep = kanilib.playback(prop, grp, pb) if grp else {"reproduced": None, "tail": "no group"}
                m = re.search(r'Check for `[^`]*`: "(.*?)"\n', pb, re.S)
                out["input"] = {"kind": "kani-concrete-playback", "harness": h, "group": grp, "unit_test": pb,
                                "playback_is_for_check": m.group(1) if m else None,
                                "replayed_on_real_code": rep}
                return out
    targets = mirror_targets(prop, failing)
    if not targets:
        return out
    main_targets = [t for t in targets if t not in FRAG_MIRRORS]
    binp, err = (build_mirror() if main_targets else (None, ""))
    if main_targets and not binp:
        out["sweeps"].append({"error": err})
    for t in targets:
        tb = binp
        if t in FRAG_MIRRORS:
            tb, ferr = build_frag_mirror(t, *FRAG_MIRRORS[t])
            if not tb:
                out["sweeps"].append({"target": t, "error": ferr})
                continue
        if not tb:
            continue
        try:
            p = subprocess.run([tb, "sweep", t, "thorough"], capture_output=True, text=True, timeout=900)  # the sweeps take seconds: always the full domain
        except subprocess.TimeoutExpired:
            out["sweeps"].append({"target": t, "error": "timeout"})
            continue
        last = [l for l in p.stdout.splitlines() if l.startswith("{")]
        rec = json.loads(last[-1]) if last else {"error": p.stderr[-300:]}
        rec["target"] = t
        out["sweeps"].append(rec)
        if rec.get("failing_input") and not out["input"]:
            out["input"] = {"kind": "mirror", "target": t, "input": rec["failing_input"]}
    return out


MIRRORS_OF = {"C01": ["kmer"], "C02": ["kmer"], "C12": ["kmer"], "C16": ["kmer"], "C04": ["aln", "tables", "repeat"], "C05": ["idx"]}


def sweep_all(prop, cfg):
    """thorough tier: run every mirror sweep that belongs to the property"""
    global CUR_PROP
    CUR_PROP = prop
    out = {"input": None, "sweeps": []}
    targets = MIRRORS_OF.get(prop, [])
    if not targets:
        return out
    binp, err = build_mirror()
    if not binp:
        out["sweeps"].append({"error": err})
    for t in targets:
        tb = binp
        if t in FRAG_MIRRORS:
            tb, ferr = build_frag_mirror(t, *FRAG_MIRRORS[t])
            if not tb:
                out["sweeps"].append({"target": t, "error": ferr})
                continue
        if not tb:
            continue
        try:
            p = subprocess.run([tb, "sweep", t, "thorough"], capture_output=True, text=True, timeout=1800)
        except subprocess.TimeoutExpired:
            out["sweeps"].append({"target": t, "error": "timeout"})
            continue
        last = [l for l in p.stdout.splitlines() if l.startswith("{")]
        rec = json.loads(last[-1]) if last else {"error": p.stderr[-300:]}
        rec["target"] = t
        out["sweeps"].append(rec)
        if rec.get("failing_input") and not out["input"]:
            out["input"] = {"kind": "mirror", "target": t, "input": rec["failing_input"]}
    return out


def run_replay_file(prop, path):
    """re-run exactly the input recorded in a replay file against the current tree; exit 1 if it still fails"""
    global CUR_PROP
    CUR_PROP = prop
    try:
        rp = json.load(open(path))
    except Exception as e:
        print(f"UNDECIDED property={prop} reason=cannot-read-replay {e}")
        return 2
    inp = (rp.get("replay") or {}).get("input")
    if not inp:
        print("replay file carries no concrete input; failed obligations were:")
        for f in rp.get("failed_obligations", []):
            print("  ", f.get("obligation"), "-", f.get("clause", "")[:200])
        print(f"VIOLATION property={prop} replay={path} no-failing-input-found")
        return 1
    if inp["kind"] == "kani-concrete-playback":
        print("Kani counterexample for harness", inp["harness"], "- replaying the concrete values natively against the current tree")
        print(inp["unit_test"])
        rep = kanilib.playback(prop, inp.get("group"), inp["unit_test"]) if inp.get("group") else {"reproduced": None, "tail": "no group recorded"}
        print("playback:", rep.get("cmd", ""), "->", rep.get("tail", ""))
        if rep.get("reproduced") is False:
            print(f"OK property={prop} replayed input no longer fails")
            return 0
        print(f"VIOLATION property={prop} replay={path}" + ("" if rep.get("reproduced") else " (playback could not be run; the counterexample is the one recorded by Kani)"))
        return 1
    if inp["target"] in FRAG_MIRRORS:
        binp, err = build_frag_mirror(inp["target"], *FRAG_MIRRORS[inp["target"]])
        args = [binp, "one", json.dumps(inp["input"], separators=(",", ":"))]
    else:
        binp, err = build_mirror()
        args = [binp, "one", inp["target"], json.dumps(inp["input"], separators=(",", ":"))]
    if not binp:
        print(f"UNDECIDED property={prop} reason={err}")
        return 2
    p = subprocess.run(args, capture_output=True, text=True)
    print(p.stdout.strip())
    if p.returncode == 1:
        print(f"VIOLATION property={prop} replay={path}")
        return 1
    print(f"OK property={prop} replayed input no longer fails")
    return 0
