"""Per-property list of what stays unchecked (reported in every evidence file next to the mechanical assumption scan)."""

KMER_COMMON = [
    "external/trusted: needletail delivers each record's bases once, unwrapped, num_bases == seq.len(), quality string of the same length with bytes >= 33 (preconditions seq_len == |seq|, qual_wf)",
    "caller obligation not discharged: k is odd, 5 <= k <= 31 when IntT = u64 and <= 63 when IntT = u128 (established by the dispatch in lib.rs::main and the checks in SkaDict::new / RefSka::new: I/O functions, read by eye)",
    "assumed contract: usize::div_ceil (assume_specification, textbook meaning)",
    "machine arithmetic is NOT treated as mathematical: every shift width, overflow and index is an obligation; 64-bit usize is assumed only in unit `bloom` (global size_of usize == 8)",
    "no unsafe code in any verified function",
]

ASSUMPTIONS = {
    "C01": KMER_COMMON + [
        "unverified glue: hashbrown entry()/and_modify()/or_insert() around the IUPAC update and the two palindrome closures (SkaDict::add_to_dict / add_palindrome_to_dict) behave as a map update",
        "what add_file_kmers does with one window (filter consulted iff reads and quality passes; canonical add; palindrome dispatch) is proved on the two lifted statements with the dictionary / count filter reduced to ghost logs; still unverified glue: its needletail loop and proportion_reads stride, the `while let` skeleton around the two statements (the identical skeleton is verified in RefSka::new.collect_record), decode_kmer / Display / Debug used by `ska nk` (String code)",
        "assumed contract: NtHashIterator::new (iterator adapters) == fold fh_n/rh_n; cross-checked per k by Kani against index-loop mirrors that Verus proves equal to the folds for every k",
    ],
    "C02": KMER_COMMON + [
        "external/trusted: record order, line wrapping and gzip are handled by needletail's parser; that MergeSkaDict::append / merge keep columns apart is the bounded C07 check (hashbrown re-bound to a stand-in), not decided here",
        "bounded (never counted as proved): multi_append / parallel_append (column arithmetic of the parallel build) verbatim in a fragment crate, <= 8 input files, recursion depth 1..3, offset <= 2. R3 (unit pappend_k, assumed contracts on dependencies): rayon::join(a, b) == (a(), b()); SkaDict::new / MergeSkaDict reduced to recording stand-ins (column index, name, number of inputs per column); String -> small integer; the type alias InputFastx is restated, not extracted; the depth build_and_merge passes (f64 log2/floor of the thread count) is unverified glue",
        "the dictionary is the union over windows of the canonical (k-mer, middle) pairs with IUPAC accumulation: accumulation order-independence is the complete Kani enumeration of the IUPAC table; the map update itself is hashbrown glue",
    ],
    "C04": [
        "assumed contract: AlnWriter::new (iter().map().sum() rejected by Verus): fields as in its struct literal and seq_out == '-' x total length; lemma_initial_wf proves that state satisfies the invariant",
        "caller obligations not discharged (unverified glue RefSka::map / pseudoalignment): write_split_kmer is called in reference order, each contig position h <= pos < len-h, on contigs in non-decreasing order; finalise is called once after the last call; repeat_regions < total length",
        "caller obligation: the stored reference is upper case (RefSka::new, `to_ascii_uppercase` after the fix commit) - precondition ref_upper of the upper-case clause",
        "external/trusted: track_repeats (hashbrown sets): `repeats` == split k-mers seen at least twice",
        "split_kmer_pos sorted by position within a record with h <= pos, pos + h < len is PROVED for RefSka::new's collection loop (fragment RefSka::new.collect_record, from the SplitKmer contracts); that `chrom` increases by one per record, and that RefSka::map keeps the list order when it selects the mapped k-mers, is unverified glue",
        "R3: hashbrown::HashSet re-bound to std::collections::HashSet (vstd-specified) in the repeat fragment",
        "strand correction RC_IUPAC is enumerated by Kani; its application inside RefSka::map (iterator chain over a hashbrown map) is unverified glue",
    ],
    "C05": [
        "caller obligation not discharged: no empty contig in the reference (ends_ok); write_vcf zips the iterator with the alignment columns, so next() is not called after None",
        "the per-character genotype decision of write_vcf (\"0\" iff equal to the reference byte, '.' for '-', allele index otherwise, variant flag, ALT list) is under a complete Kani contract on the lifted statement; still unverified glue: the loops around it, `if variant` -> record, REF/contig names/sample order handed to the noodles builders, rayon pseudoalignment",
        "bounded (never counted as proved): IdxCheck::new + iter on the real code for 3 contigs of length <= 2 (back-up for re-implementations Verus cannot parse)",
    ],
    "C06": [
        "MergeSkaArray::filter as a whole (the zip over counts / rows / k-mers, the threshold test, push_row, the assignments after the loop, the --ambig-mask pass, the returned `removed`, update_counts(true) first iff --filter-ambig-as-missing) is checked BOUNDED on 1 split k-mer x 2 samples, lifted into the real crate with HashSet re-bound by name resolution and update_counts stubbed; for more rows it is unverified glue (one iteration of the loop on rows of length <= 3 is the row-step check); write_fasta's transpose and the clap wiring are not decided",
        "R3: a row ArrayView1<u8> re-bound to &Vec<u8> (assumes ndarray yields a row's elements in index order); hashbrown::HashSet re-bound to std HashSet; the second loop of NoAmbigOrConst consumes the set by value (rejected by Verus): only its body is verified",
        "floating point: apply_filters' ceil(samples x min_freq) is checked by Kani with CBMC's IEEE-754 model for samples <= 4",
        "bounded (thorough tier only, never counted as proved): update_counts on a 2x2 table",
    ],
    "C07": [
        "BOUNDED: MergeSkaDict::extend / merge / append are checked for at most 2 split k-mers (symbolic values) and at most 2 samples per operand",
        "R3 (unit mergefrag_k, assumed contracts on dependencies): hashbrown::HashMap behaves as an association list without duplicate keys (entry / and_modify / or_insert_with / insert / len / iteration), std Vec as a sequence (inline array of <= 4 elements: push, extend_from_slice, extend, index, iter, vec![x; n]), String as a value that can be cloned, swapped, taken and tested for emptiness; `panic!` ends the path",
        "R1: the bound `IntT: UInt` of the impl blocks is replaced by `PartialEq + Copy + Default` (the three functions only copy and compare k-mers); instantiated at u64",
        "call-site preconditions assumed by the harnesses: rows have length n_samples; merge: a dictionary without k-mers has no names yet (SkaDict::new refuses a sample without k-mers); append: the sample's slot is still empty",
        "the Kani wrapper harness replaces MergeSkaArray::load, ::to_dict, MergeSkaDict::extend and save_skf by stubs: it checks only the order, operands and number of the calls generic_modes::merge makes (one and two further files)",
        "unverified glue: MergeSkaArray::to_dict / ::new around the proved cell closures (hashbrown iteration, ndarray push_row), that `ska build` (rayon join over multi_append) calls append / merge with disjoint sample slots, serialisation (C09)",
        "tool defect worked around (DESIGN.md §9.2b): Kani 0.68 / CBMC 6.11 lose a write made through `&mut arr[i].field_array` for an inline array of structs and symbolic i; the stand-in map takes such references at constant indices only",
    ],
    "C08": [
        "BOUNDED: delete_samples is checked in two halves for 3 samples (distinct symbolic names, duplicate-free delete lists of 0..=3 names) and 1 split k-mer x 3 samples (index lists [0], [0,2]; thorough adds [1], [2], [0,1])",
        "R3 (unit deletenames_k, assumed contracts on dependencies): String as a value compared / cloned / taken, &str as a literal with to_string(), hashbrown::HashSet as a duplicate-free vector (new / insert / contains / remove / is_empty), Vec as a sequence (inline array of <= 4), MergeSkaArray reduced to `names` and nsamples(); panic! -> the refusal is noted and the fragment returns",
        "the two halves are joined by (idx_list, new_names): the harness of the column half feeds it the lists the name half is checked to produce (ascending indices, kept names in order); that the real function passes them on unchanged is the verbatim text between the two fragments (none: the cut is at a statement boundary)",
        "update_counts is stubbed in the column half (recording stub); what it does - drop split k-mers without any sample, recount - is the bounded check bounded_update_counts_1x2 (shared with C06)",
        "the Kani wrapper harness replaces MergeSkaArray::delete_samples and ::save by recording stubs: it checks only order, number and arguments of the calls generic_modes::delete makes; output name already ending in .skf (the other branch is format!)",
        "names file: the head of main()'s Delete arm is checked to call the name-list reader (both readers replaced by recording functions through name resolution in the harness module); name_from_line is checked on lines of 2-3 bytes over {a, b, space, tab} (BOUNDED); the loop of get_name_list over the lines of the file (File, BufRead) is unverified glue",
        "not decided: names on the command line (they still pass through read_input_fastas: a trailing .fa/.fasta/.fastq(.gz) and a directory prefix are stripped), duplicate names, load/save (C09)",
    ],
    "C10": KMER_COMMON[3:] + [
        "PARTIAL: only the representation invariant `variant_count[i] == number of cells of row i that are not '-'` of a saved object is decided, path by path; the property's composition over arbitrary operation sequences is not",
        "BOUNDED: whole bodies of filter (1 x 2), weed (1 x 2), second half of delete_samples (1 x 3), update_counts (1 x 2) on the real ndarray with HashSet re-bound by name resolution where used; update_counts is a recording stub inside the filter and delete harnesses and checked on its own",
        "MergeSkaArray::new: only its two cell closures are proved (Verus, lifted fragments); the loop over the hashbrown dictionary and push_row are unverified glue",
        "the wrapper harnesses (weedwrap, deletewrap, mergewrap) replace the callees by recording stubs: order, number and arguments of calls only",
        "not decided: row order and k_bits / ska_version as hidden state; (de)serialisation (C09); later commands as functions of the content",
    ],
    "C12": KMER_COMMON + [
        "KmerFilter::filter is checked by Kani on its verbatim text in a fragment crate (unit countfrag_k). R3 (assumed contract on a dependency): hashbrown::HashMap's entry()/and_modify()/or_insert() behave as an association list without duplicate keys (3 inline slots; one call touches one key, the table is projected onto that key and one other); SplitKmer reduced to the hash get_hash() returns, UInt to a marker trait; one bloom word in the harness (the frame over other words is bloom_add_and_check's Verus contract). What filter returns once the count is exceeded is left open (adding again is idempotent). The < 0.1% collision statement is probabilistic: not decided",
        "the read-filter condition of add_file_kmers (quality rule consulted before, and as a guard of, the counting filter) is checked by Kani on the lifted condition with KmerFilter::filter stubbed, for one read of length k = 5; the needletail loop and the dictionary insertion around it are unverified glue",
        "assumed contract: KmerFilter::cheap_mix (wrapping_mul) is an arbitrary but fixed function of the key (external_body, uninterpreted mix_spec)",
        "R13: `self.buffer[i].borrow_mut()` rewritten to `&mut self.buffer[i]` (blanket identity impl)",
        "assumed contracts u64::rotate_left/rotate_right == shift formulas (assume_specification) - discharged for every value by the Kani harness rotate_spec_all_values",
    ],
    "C13": KMER_COMMON + [
        "bounded (never counted as proved), on fragments lifted into the real crate with `HashSet` re-bound by name resolution to a duplicate-free vector: the weed set == the k-mers listed by RefSka::kmer_iter for lists of <= 3 k-mers; the whole body of MergeSkaArray::weed (set, zip over (split_kmers, rows, counts), decision, the three field assignments, names/k/strand untouched) on 1 split k-mer x 2 samples and 1 weed k-mer; beyond those bounds the zip and the assignments are unverified glue",
        "R3 (unit weedfrag): hashbrown::HashSet -> std HashSet; the Array2 under construction -> RowsShim whose push_row is an external stub with the contract `appends the row`; a row view -> &Vec<u8>",
        "the Kani wrapper harness replaces RefSka::new, MergeSkaArray::weed, ::filter and ::save by recording stubs (their own behaviour is decided elsewhere or not at all): it checks only which of them generic_modes::weed calls, in which order and with which arguments; samples <= 4, every f64 min_freq in [0,1], k in 5..=63",
    ],
    "C14": [
        "BOUNDED: variant_dist is checked for columns of length 3 only",
        "head of generic_modes::distance: checked modularly - apply_filters is re-bound (name resolution in the harness module) to its contract on an abstract table of 3 rows (presence count, constant or not; a constant row is present in every sample), MergeSkaArray::distance is stubbed; 3 samples, --allow-ambiguous off; that the real apply_filters / filter meet that contract is C06 (apply_filters wrapper proof, bounded whole-body check of filter)",
        "not decided: MergeSkaArray::distance (rayon, collect_into_vec order), the thread-pool set-up and the output loop of generic_modes::distance; of MergeSkaArray::new only the closure deciding which cells count as present is proved (lifted fragment), its hashbrown iteration and ndarray push_row are glue",
        "floating point compared exactly under CBMC's IEEE-754 model",
    ],
    "C15": [
        "the 4-bit set semantics oracle in kani/tables_harness.rs (checked bijective by its own harness) is the definition of 'code of a base set'",
        "exact f64 equality for 1.0, 0.5, 1.0/3.0 under CBMC's IEEE-754 model",
    ],
    "C16": KMER_COMMON + [
        "assumed contract: NtHashIterator::new == folds fh_n/rh_n (Kani per k against mirrors; quick tier k in {5,7,15}, thorough adds 9, 21, 31, 33, 63; for other k the k-independent loop body is trusted)",
        "assumed contracts u64::rotate_left/rotate_right == shift formulas - discharged for every value by Kani",
        "encode_kmer is checked at length 5 only (its all-length statement is the Verus pack lemma); decode_kmer / skalo_decode_kmer (String code) unverified",
        "the Kani rollstep harnesses on the generic SplitKmer<IntT> are complete per k only (quick: k = 5 both widths; thorough adds 7, 15, 31, 33, 63)",
    ],
    "C20": KMER_COMMON + [
        "NOT decided, no contract within reach: grad_ll == gradient of log_likelihood, log_likelihood == the two-Poisson mixture (ln / exp / lgamma have no semantics in Verus or CBMC), the BFGS optimiser (argmin), convergence",
        "BOUNDED: record loop of CoverageHistogram::new on three concrete reads of 7 bases at k = 5 (symbolic strand mode and quality bytes); histogram truncation on tables of length 4; find_cutoff for max_cutoff <= 4",
        "R3 by name resolution in the harness module: hashbrown::HashMap -> association list with entry / and_modify / or_insert; the needletail record -> a stand-in with seq() / num_bases() / qual()",
        "find_cutoff is run with a() and b() replaced by arbitrary finite tables indexed by the count (Kani stubs): what is checked is the search, not the densities; finite values only (inf - inf is NaN)",
        "histogram step: counts are >= 1 (every key of the dictionary was inserted with 1) and a bin holds fewer than u32::MAX k-mers (preconditions)",
        "unverified glue: the loops over the two FASTQ files and their records (needletail), `for kmer_count in self.kmer_dict.values()` (hashbrown iteration: each key once), that fit_histogram passes counts.len() as the cap and stores the result, the first two columns printed by plot_hist",
        "floating point in find_cutoff compared under CBMC's IEEE-754 model",
        "grad_ll_never_nan: exp() replaced by an arbitrary value in [0, +inf], a() and b() by arbitrary finite tables, one multiplicity; CBMC's own NaN/overflow instrumentation is switched off for this harness (its `NaN on division` check flags 1/(1+r), r >= 0) and the result is tested with is_nan() instead",
    ],
}
