CHECK_TEXT = {
 "C01": {
  "text": "Deductive proof (Verus, all sequences / all k / both widths, no bound) on the mechanically extracted real functions that SplitKmer::new + get_next_kmer enumerate exactly the windows of k acceptable bases, first to last with none skipped (including the window ending at the record end), and that the packed arms / middle base / canonical orientation / palindrome flag equal their mathematical definitions; complete Kani enumeration of the IUPAC accumulation table and of the two palindrome closures (lifted fragments). The hash-map insertion around them is unverified glue.",
  "design_ref": "DESIGN.md §5 C01", "technique": "Verus contracts on extracted SplitKmer + Kani full-domain table harnesses",
  "note": "Trusted: Verus/Z3/vstd, Kani/CBMC, the vx extractor's logged rewrites (monomorphisation cross-checked by Kani on the generic code). Unverified glue: hashbrown entry() calls in add_to_dict/add_palindrome_to_dict, needletail record delivery, decode_kmer/Display for `ska nk`."},
 "C02": {
  "text": "Proof level for the strand and case parts: on top of the C01 contracts, Verus lemmas show that a window and its reverse complement have the same canonical (k-mer, middle) pair (or are both palindromic with middle bases in the same W/S class), encode_base/valid_base are case-blind for every byte, and the IUPAC accumulation is order-independent (complete Kani enumeration). Record order, wrapping and gzip are properties of the external parser and are assumed.",
  "design_ref": "DESIGN.md §5 C02", "technique": "Verus strand lemmas over SplitKmer contracts + Kani table enumeration",
  "note": "Assumed: needletail delivers each record's bases once and unwrapped; MergeSkaDict::append (hashbrown) permutes columns. Same trusted base as C01."},
 "C12": {
  "text": "Proof level for the quality rule and the hash symmetry: Verus proves valid_qual is `quality - 33 >= min_qual` for every index, that under the strict rule every base of every emitted window passes and a failing base restarts the window exactly like an N, and that middle_base_qual tests the middle position; Kani proves on the real ntHash code that rolling equals hashing from scratch and that a k-mer and its reverse complement get the same hash (complete per listed k). The count table (hashbrown) and the collision rate are not decided.",
  "design_ref": "DESIGN.md §5 C12", "technique": "Verus contracts on valid_qual/build/roll_fwd/middle_base_qual + Kani ntHash harnesses per k",
  "note": "Not decided: KmerFilter::filter's hashbrown count table (== min_count threshold), the <0.1% collision statement (probabilistic). ntHash harnesses are complete per k; quick runs k in {5,7}, thorough adds 15, 31, 33, 63."},
 "C15": {
  "text": "Complete proof by enumeration: loop-free Kani harnesses over every byte value (and every 2-bit base) on the real IUPAC / RC_IUPAC tables and is_ambiguous / base_to_prob / encode_base / decode_base / rc_base against a 4-bit set semantics of the 15 IUPAC letters written in the harness (checked bijective).",
  "design_ref": "DESIGN.md §5 C15", "technique": "Kani full-domain (all u8) harnesses on the real tables",
  "note": "Trusted: Kani/CBMC/CaDiCaL; the set-semantics oracle in kani/tables_harness.rs (15 lines, checked for bijectivity by its own harness). Exact f64 equality for the weights 1, 0.5, 1/3."},
 "C16": {
  "text": "Deductive proof for every k and both widths: Verus proves on the extracted real code that rev_comp is the per-base complemented reversal with nothing above bit 2k, that pack/unpack round-trips (pack lemma library), that masks are 4^h-1 and its shift, and that after build / any number of roll_fwd steps the stored arms, middle base and their reverse complements equal the from-scratch packing of the current window (struct invariant), with middle position p+h; Kani re-checks the bit-level contracts on the generic trait code for all values and all k, and the ntHash rolling/strand identities per k.",
  "design_ref": "DESIGN.md §5 C16", "technique": "Verus by(bit_vector) lemmas + struct invariant on extracted code; Kani on generic UInt impls",
  "note": "ntHash identities are complete per k only (quick k in {5,7}; thorough adds 15,31,33,63); encode_kmer is checked at length 5 only (its all-length statement is the Verus pack lemma). decode_kmer/skalo_decode_kmer (String code) unverified."},
}

NOT_APPLICABLE = {
 "C03": "composition of build -> hashbrown merge -> ndarray filter -> needletail writer plus a combinatorial uniqueness argument; no function within reach of Verus/Kani carries it (ingredients decided under C01, C06, C15)",
 "C04": "check not built yet in this round (planned: AlnWriter + repeat-coordinate loop under contract)",
 "C05": "check not built yet in this round (planned: IdxCheck + u8_to_base under contract)",
 "C06": "check not built yet in this round (planned: row predicates of filter as lifted fragments)",
 "C07": "mechanism is MergeSkaDict::extend/to_dict/MergeSkaArray::new: closures passed to hashbrown's entry API and iteration over hashbrown maps; Verus cannot take them, Kani does not terminate on a single hashbrown insert",
 "C08": "delete_samples is HashSet<String> bookkeeping plus ndarray push_column; get_input_list is string splitting and file I/O; neither verifier reaches them",
 "C09": "a property of ciborium/snap/serde (external) and of the try-u64-then-u128 dispatch in lib.rs::main; no function within reach has a contract that states it",
 "C10": "needs a representation invariant on MergeSkaArray preserved by new/update_counts/filter/weed/delete_samples; these are ndarray/hashbrown code: Verus cannot parse them and Kani runs out of 25 GB on filter even at 1 row x 2 samples",
 "C11": "concurrency and process-global state (rayon global pool, hash seeds); Kani has no threads, Verus would need its permission types threaded through rayon/dashmap/Mutex code it cannot parse",
 "C13": "generic_modes::weed (I/O) and MergeSkaArray::weed (hashbrown set + ndarray row rebuild) are outside both verifiers; the shared k-mer iteration is decided under C01",
 "C14": "check not built yet in this round (planned: bounded Kani check of variant_dist)",
 "C17": "graph construction/traversal over DashMap/hashbrown maps of String-decoded k-mers filled from a rayon pool, plus a statistical completeness claim; nothing but a 20-line counter is within reach",
 "C18": "same code base as C17 (String/HashSet<String> code writing a file); 'at least 90% reported' is not a contract",
 "C19": "a property of the snappy frame CRC and ciborium's decoder (external crates, I/O); load is three library calls with no body to put a contract on",
 "C20": "coverage.rs is f64 throughout: Verus rejects usize-as-f64 casts and has no ln/exp/lgamma, Kani has no semantics for ln/lgamma and treats the optimiser as opaque; the counting loop is a hashbrown map filled from needletail",
}

NOTES = "Contract-based deductive verification of the real code: see DESIGN.md. exit 2 + 'UNDECIDED' means the run could not decide (lost anchor, tool limit, only proof hints failed) and is never an alarm. Work area /var/tmp/ska-verif is created on demand."
