"""Which units / harness groups decide which property, and which functions each property's
contracts pass through (DESIGN §5).  An obligation of function f counts for property P iff
f is listed under P here (the transitive set of functions P's top-level contracts rest on)."""

BITS_FNS = ["encode_base", "decode_base", "rc_base", "valid_base",
            "UInt::rev_comp", "UInt::lsb_u8", "UInt::as_u8", "UInt::generate_masks", "UInt::skalo_mask",
            "UInt::zero_init", "UInt::from_encoded_base"]
DICT_FNS = ["add_file_kmers.first_window", "add_file_kmers.next_window"]
SPLIT_FNS = ["SplitKmer::valid_qual", "SplitKmer::build", "SplitKmer::update_rc", "SplitKmer::roll_fwd",
             "SplitKmer::new", "SplitKmer::get_curr_kmer", "SplitKmer::get_next_kmer",
             "SplitKmer::get_middle_pos", "SplitKmer::self_palindrome"]
QUAL_FNS = ["SplitKmer::valid_qual", "SplitKmer::middle_base_qual", "SplitKmer::build", "SplitKmer::roll_fwd",
            "SplitKmer::new", "SplitKmer::get_next_kmer", "SplitKmer::get_hash", "valid_base"]

PROPS = {
    "C01": {
        "level": "proof",
        "verus": [("kmer", ["u64", "u128"])],
        "functions": BITS_FNS + SPLIT_FNS + DICT_FNS,
        "kani": [("tables", ["oracle_bijective", "iupac_union", "iupac_order_independent", "encode_decode_consistent", "valid_base_n", "leaf_fns_all_bytes"]),
                 ("bitops", None),
                 ("palin", None), ("tablefrag", ["add_to_dict_modify_is_union", "add_to_dict_insert_is_singleton", "add_to_dict_two_observations_commute"])],
        "bounded": [],
    },
    "C02": {
        "level": "proof",
        "verus": [("kmer", ["u64", "u128"])],
        "functions": ["encode_base", "valid_base", "rc_base", "UInt::rev_comp", "UInt::generate_masks",
                      "SplitKmer::build", "SplitKmer::update_rc", "SplitKmer::roll_fwd", "SplitKmer::new",
                      "SplitKmer::get_curr_kmer", "SplitKmer::get_next_kmer", "SplitKmer::self_palindrome"] + DICT_FNS,
        "kani": [("tables", ["iupac_order_independent", "encode_decode_consistent", "valid_base_n", "leaf_fns_all_bytes"]), ("bitops", None), ("palin", None), ("tablefrag", ["add_to_dict_two_observations_commute"])],
        "bounded": [],
    },
    "C06": {
        "level": "proof",
        "verus": [("rowfrag", [None])],
        "functions": ["is_ambiguous", "filter.keep_noconst", "filter.keep_noambig", "filter.collect_types", "filter.weight_step", "filter.mask_cell",
                      "update_counts.count_pred", "new.count_pred", "new.zero_to_gap"],
        "kani": [("tables", ["oracle_bijective", "is_ambiguous_classification", "leaf_fns_all_bytes"]), ("wrappers", None), ("rowfragk", ["count_pred_all_bytes"])],
        "bounded_quick": [{"group": "rowfragk", "name": "bounded_filter_row_step_len3", "bound": "one row of length <= 3 over 8 representative symbols; count, threshold <= 4; all filter types and flags", "timeout": 1500},
                          {"group": "ndarr", "name": "bounded_update_counts_1x2", "bound": "1 row x 2 samples, symbolic bytes, flag and stored count",
                           "args": ["-Z", "unstable-options", "--cbmc-args", "--unwindset", "memcmp.0:18"], "timeout": 1200}],
        "bounded_thorough": [{"group": "rowfragk", "name": "bounded_keep_noconst_len4", "bound": "rows of length <= 4 over 8 representative symbols"},
                             {"group": "rowfragk", "name": "bounded_keep_noambig_len4", "bound": "rows of length <= 4 over 8 representative symbols"},
                             {"group": "rowfragk", "name": "bounded_keep_noambig_or_const_len4", "bound": "rows of length <= 4 over 8 representative symbols"}],
        "bounded": [{"group": "ndarr", "name": "bounded_update_counts_2x2", "bound": "2 rows x 2 samples, symbolic bytes, flag and stored counts",
                     "args": ["-Z", "unstable-options", "--cbmc-args", "--unwindset", "memcmp.0:18"], "timeout": 2400}],
    },
    "C07": {
        "level": "other",
        "explanation": "BOUNDED check of the table operations (never counted as proved) plus a complete wiring proof: Kani runs the verbatim text of MergeSkaDict::extend / merge / append in a fragment crate whose containers (hashbrown::HashMap, Vec, String) are small stand-ins with the same interface, for at most 2 split k-mers (symbolic values) and 2 samples per operand, against the abstract table `names ++ names, row(k) = self cells ++ other cells, 0 where absent` (extend) and `cellwise OR over disjoint samples` (merge/append), and proves that a k or strand-mode mismatch never returns; Kani proves on the real generic_modes::merge (callees stubbed) that files are loaded and joined in argument order with the accumulated dictionary on the left and that the output is written once, after the last extend. Verus proves which cells MergeSkaArray::new turns into '-' (0 -> '-').",
        "verus": [("rowfrag", [None])],
        "functions": ["new.count_pred", "new.zero_to_gap"],
        "kani": [("mergewrap", None)],
        "bounded_quick": [{"group": "mergefrag", "name": "mergefrag_all", "names": ["bounded_extend_2s2k_2s2k", "bounded_extend_1s2k_2s1k", "bounded_extend_2s0k_1s2k", "bounded_extend_1s1k_1s0k", "extend_refuses_mismatch", "extend_returns_on_match", "bounded_merge_2s_2k_2k", "bounded_merge_2s_0k_1k", "bounded_merge_2s_1k_0k", "merge_refuses_mismatch", "bounded_append_2s_2k_2k", "bounded_append_2s_0k_2k", "append_refuses_mismatch"],
                           "bound": "<= 2 split k-mers (symbolic, distinct) and <= 2 samples per operand; containers re-bound to inline-array stand-ins", "timeout": 2400}],
        "bounded": [],
        "bounded_core": True,
    },
    "C12": {
        "level": "proof",
        "verus": [("kmer", ["u64", "u128"]), ("bloom", [None])],
        "functions": QUAL_FNS + DICT_FNS + ["KmerFilter::reduce", "KmerFilter::cheap_mix", "KmerFilter::fingerprint",
                                 "KmerFilter::location", "KmerFilter::bloom_add_and_check",
                                 "NtHashIterator::new", "NtHashIterator::roll_fwd", "NtHashIterator::curr_hash"],
        "kani": [("nthash", None), ("readfilter", None), ("bitops", None), ("tables", ["leaf_fns_all_bytes"])],
        "bounded": [],
    },
    "C04": {
        "level": "proof",
        "verus": [("alnwriter", [None]), ("repeatfrag", ["u64"]), ("kmer", ["u64", "u128"])],
        "functions": ["RefSka::new.collect_record", "SplitKmer::new", "SplitKmer::build", "SplitKmer::roll_fwd", "SplitKmer::update_rc",
                      "SplitKmer::get_curr_kmer", "SplitKmer::get_next_kmer", "SplitKmer::get_middle_pos",
                      "AlnWriter::new", "AlnWriter::total_size", "AlnWriter::fill_fwd_bases", "AlnWriter::fill_contig",
                      "AlnWriter::write_split_kmer", "AlnWriter::finalise", "AlnWriter::get_seq", "is_ambiguous", "pseudoalignment.step",
                      "RefSka::new.repeat_coords"],
        "kani": [("tables", ["oracle_bijective", "rc_iupac_complement", "rc_iupac_fixed_points", "is_ambiguous_classification", "leaf_fns_all_bytes"]), ("tablefrag", ["map_strand_correction"])],
        "bounded": [],
    },
    "C05": {
        "level": "proof",
        "verus": [("idxcheck", [None])],
        "functions": ["IdxCheck::new", "IdxCheck::iter", "Iterator::next"],
        "kani": [("u8base", None), ("vcffrag", None)],
        "bounded_quick": [{"group": "idxk", "name": "bounded_idxcheck_3contigs", "bound": "3 contigs of length 1..=2", "timeout": 900},
                          {"group": "idxk", "name": "bounded_idxcheck_1contig", "bound": "1 contig of length 1..=3", "timeout": 600}],
        "bounded": [],
    },
    "C13": {
        "level": "proof",
        "verus": [("weedfrag", ["u64", "u128"]), ("kmer", ["u64", "u128"])],
        "functions": ["weed.row_step", "RefSka::new.collect_record", "SplitKmer::new", "SplitKmer::build", "SplitKmer::roll_fwd", "SplitKmer::update_rc",
                      "SplitKmer::get_curr_kmer", "SplitKmer::get_next_kmer", "SplitKmer::get_middle_pos"],
        "kani": [("weedwrap", None)],
        "bounded_quick": [{"group": "weedset", "name": "weed_set_is_the_listed_kmers", "bound": "weed lists of <= 3 k-mers with arbitrary u64 values", "timeout": 1200},
                          {"group": "weedset", "name": "bounded_weed_whole_1x2", "bound": "1 split k-mer x 2 samples, 1 weed k-mer, all values symbolic",
                           "args": ["-Z", "unstable-options", "--cbmc-args", "--unwindset", "memcmp.0:18"], "timeout": 2400}],
        "bounded": [],
    },
    "C14": {
        "level": "other",
        "explanation": "BOUNDED check only (never counted as proved): Kani on the real MergeSkaArray::variant_dist with two symbolic columns of length 3 over {A,C,G,T,-} and a symbolic constant in 0..3, exact f64 comparison, against 'SNP count over shared k-mers / one-sided over union'; plus the complete enumeration of base_to_prob weights (C15 harness). distance() (rayon) and the --min-freq pre-filter bookkeeping in generic_modes::distance are outside the decided kernel.",
        # the only Verus part: which cells MergeSkaArray::new counts as present (the counts the --min-freq filter of
        # `ska distance` compares with its threshold)
        "verus": [("rowfrag", [None])],
        "functions": ["new.count_pred", "new.zero_to_gap"],
        "kani": [("tables", ["oracle_bijective", "base_to_prob_weights"])],
        "bounded": [{"group": "ndarr", "name": "bounded_variant_dist_len3", "bound": "columns of length 3 over {A,C,G,T,-}, constant in {0,1,2,3}",
                     "args": ["-Z", "unstable-options", "--cbmc-args", "--unwindset", "memcmp.0:18"], "timeout": 1500}],
        "bounded_in_quick": True,
        "bounded_core": True,
        "bounded_thorough": [{"group": "ndarr", "name": "bounded_variant_dist_len4", "bound": "columns of length 4 over {A,C,G,T,-}, constant in {0,1,2,3}",
                              "args": ["-Z", "unstable-options", "--cbmc-args", "--unwindset", "memcmp.0:18"], "timeout": 5400}],
    },
    "C15": {
        "level": "proof",
        "verus": [],
        "functions": [],
        "kani": [("tables", None), ("tablefrag", None)],
        "bounded": [],
    },
    "C16": {
        "level": "proof",
        "verus": [("kmer", ["u64", "u128"])],
        "functions": BITS_FNS + ["SplitKmer::build", "SplitKmer::update_rc", "SplitKmer::roll_fwd", "SplitKmer::new",
                                 "SplitKmer::get_curr_kmer", "SplitKmer::get_next_kmer", "SplitKmer::get_middle_pos",
                                 "NtHashIterator::new", "NtHashIterator::roll_fwd", "NtHashIterator::curr_hash"],
        "kani": [("bitops", None), ("nthash", None), ("rollstep", None), ("tables", ["leaf_fns_all_bytes"])],
        "bounded": [],
    },
}

# Contracts that are ALSO discharged, completely (every value, every k), by a Kani harness on the real code.  If only
# the Verus proof of such a function's own body fails (typically after a behaviour-preserving rewrite of its
# expressions: `a | b` vs `b | a` is not the same term to Z3 outside by(bit_vector)), the driver accepts the Kani
# discharge of the same contract instead; callers are verified against the contract either way (modular).
# "{w}" is replaced by the width of the failing unit.  Equivalence of the two formulations is argued in DESIGN §9.2.
DISCHARGED_BY = {
    "UInt::rev_comp": ("bitops", ["rev_comp_per_base_{w}"]),
    "UInt::generate_masks": ("bitops", ["masks_{w}"]),
    "UInt::skalo_mask": ("bitops", ["masks_{w}"]),
    "UInt::lsb_u8": ("bitops", ["small_ops_{w}"]),
    "UInt::as_u8": ("bitops", ["small_ops_{w}"]),
    "UInt::from_encoded_base": ("bitops", ["small_ops_{w}"]),
    "UInt::zero_init": ("bitops", ["small_ops_{w}"]),
    "encode_base": ("tables", ["leaf_fns_all_bytes"]),
    "decode_base": ("tables", ["leaf_fns_all_bytes"]),
    "rc_base": ("tables", ["leaf_fns_all_bytes"]),
    "valid_base": ("tables", ["leaf_fns_all_bytes"]),
    "is_ambiguous": ("tables", ["leaf_fns_all_bytes"]),
}

# where each Kani harness group is attached in the scratch copy of /repo (pure append of a `mod` line)
KANI_GROUPS = {
    "tables": {"attach": "src/ska_dict/bit_encoding.rs", "file": "tables_harness.rs", "complete": True},
    "rollstep": {"attach": "src/ska_dict/split_kmer.rs", "file": "rollstep_harness.rs", "complete": True},
    "readfilter": {"attach": "src/ska_dict.rs", "file": "readfilter_harness.rs", "incrate_unit": "readfilter_k", "complete": True, "args": ["-Z", "stubbing"]},
    "vcffrag": {"attach": "src/ska_ref.rs", "file": "vcffrag_harness.rs", "incrate_unit": "vcffrag_k", "complete": True, "timeout": 1500},
    "tablefrag": {"fragment_unit": "tablefrag_k", "file": "tablefrag_harness.rs", "complete": True},
    "rowfragk": {"fragment_unit": "rowfrag_k", "file": "rowfrag_harness.rs", "complete": False},
    "weedwrap": {"attach": "src/merge_ska_array.rs", "file": "weedwrap_harness.rs", "complete": True, "args": ["-Z", "stubbing"],
                 "attach_also": [("src/ska_ref.rs", "weedhelp_harness.rs", "weedhelp")]},
    "weedset": {"attach": "src/merge_ska_array.rs", "file": "weedset_harness.rs", "incrate_unit": "weedset_k", "complete": False,
                "attach_also": [("src/ska_ref.rs", "weedhelp_harness.rs", "weedhelp")]},
    "mergewrap": {"attach": "src/merge_ska_dict.rs", "file": "mergewrap_harness.rs", "complete": True, "args": ["-Z", "stubbing"],
                  "attach_also": [("src/merge_ska_array.rs", "mergehelp_harness.rs", "mergehelp")]},
    "mergefrag": {"fragment_unit": "mergefrag_k", "file": "mergefrag_harness.rs", "complete": False},
    "wrappers": {"attach": "src/merge_ska_array.rs", "file": "wrappers_harness.rs", "complete": True, "args": ["-Z", "stubbing"]},
    "bitops": {"attach": "src/ska_dict/bit_encoding.rs", "file": "bitops_harness.rs", "complete": True},
    "nthash": {"attach": "src/ska_dict/nthash.rs", "file": "nthash_harness.rs", "complete": True},
    "palin": {"fragment_unit": "palinfrag", "file": "palin_harness.rs", "complete": True},
    "idxk": {"attach": "src/ska_ref/idx_check.rs", "file": "idx_harness.rs", "complete": False},
    "u8base": {"attach": "src/ska_ref.rs", "file": "u8base_harness.rs", "complete": True},
    "ndarr": {"attach": "src/merge_ska_array.rs", "file": "ndarr_harness.rs", "complete": False},
}
