"""Kani side: scratch copy of /repo's working tree, harness modules appended under cfg(kani), runs + parsing."""
import os, re, subprocess, time, shutil, json, fcntl
from vlib import VERIF, REPO, WORK, gen_unit
from props import KANI_GROUPS

# One Kani target directory PER scratch copy of the crate.  (Measured: two copies of the crate sharing a target
# directory contaminate each other - cargo-kani reuses the other copy's artefacts, so a run reported a failure
# that belonged to a different tree.  Never share a target directory between source copies.)
KTARGET_ROOT = os.path.join(WORK, "kani-target")


def ktarget_for(src):
    return os.path.join(KTARGET_ROOT, os.path.basename(os.path.dirname(src.rstrip("/"))) + "-" + os.path.basename(src.rstrip("/")))
MEM_KB = int(os.environ.get("SKA_KANI_MEM_KB", str(24 * 1024 * 1024)))


def prepare_scratch(prop, groups):
    dst = os.path.join(WORK, "kani-src", prop)
    os.makedirs(dst, exist_ok=True)
    # content-based copy without preserving mtimes: a changed file always gets a fresh mtime, so cargo rebuilds it;
    # an unchanged file is not touched, so the warm build stays valid
    subprocess.run(["rsync", "-rlp", "--checksum", "--delete", "--exclude", "target", "--exclude", ".git", REPO + "/", dst + "/"], check=True)
    attached = []
    also_done = set()
    for g in groups:
        info = KANI_GROUPS[g]
        hfile = os.path.join(VERIF, "kani", info["file"])
        if not os.path.exists(hfile):
            continue
        if "incrate_unit" in info:
            # fragments lifted by vx (R6) that need the real crate's types: generated into the scratch copy and
            # include!d by the harness module
            gen = gen_unit(info["incrate_unit"], None, outdir=os.path.join(WORK, "gen", prop), vac=False)
            if gen["rc"] != 0:
                attached.append({"group": g, "error": "extraction: " + gen["out"].strip()[-400:]})
                continue
            shutil.copyfile(gen["rs"], os.path.join(dst, "src", f"verif_frag_{g}.rs"))
        for (afile, ahar, aname) in info.get("attach_also", []):
            # helper modules a harness needs in another file of the crate (e.g. to build a struct with private fields)
            if (afile, aname) in also_done:
                continue
            also_done.add((afile, aname))
            with open(os.path.join(dst, afile), "a") as f:
                f.write(f'\n#[cfg(kani)]\n#[path = "{os.path.join(VERIF, "kani", ahar)}"]\npub(crate) mod verif_kani_{aname};\n')
        modfile = os.path.join(dst, info["attach"])
        with open(modfile, "a") as f:
            f.write(f'\n#[cfg(kani)]\n#[path = "{hfile}"]\nmod verif_kani_{g};\n')
        attached.append({"group": g, "appended_to": info["attach"], "harness_file": hfile})
    return dst, attached


def prepare_fragment(prop, g):
    """fragment crate: functions lifted by vx (R6) from /repo + the harness module; no dependencies"""
    info = KANI_GROUPS[g]
    d = os.path.join(WORK, "frag", prop, g)
    os.makedirs(os.path.join(d, "src"), exist_ok=True)
    gen = gen_unit(info["fragment_unit"], None, outdir=os.path.join(WORK, "gen", prop))
    if gen["rc"] != 0:
        return None, "extraction: " + gen["out"].strip()[-400:]
    hfile = os.path.join(VERIF, "kani", info["file"])
    with open(os.path.join(d, "Cargo.toml"), "w") as f:
        f.write(f'[package]\nname = "frag_{g}"\nversion = "0.0.0"\nedition = "2021"\n[lib]\npath = "src/lib.rs"\n[workspace]\n')
    with open(os.path.join(d, "src", "lib.rs"), "w") as f:
        f.write("#![allow(unused)]\n")
        f.write(open(gen["rs"]).read())
        f.write(f'\n#[cfg(kani)]\n#[path = "{hfile}"]\nmod verif_kani_{g};\n')
    return d, ""


def list_harnesses(hfile):
    """names of #[kani::proof] functions in a harness file, with their attributes"""
    txt = open(hfile).read()
    out = []
    for m in re.finditer(r"((?:#\[[^\]]*\]\s*)+)fn\s+(\w+)\s*\(", txt):
        attrs = m.group(1)
        if "kani::proof" in attrs:
            un = re.search(r"kani::unwind\((\d+)\)", attrs)
            out.append({"name": m.group(2), "unwind": int(un.group(1)) if un else None})
    # macro-generated harnesses: `some_macro!(name1, name2; other args);` — names before the `;`
    for m in re.finditer(r"(?m)^\s*(\w+)!\(([^;()]*);", txt):
        if m.group(1) in ("macro_rules",):
            continue
        for n in m.group(2).split(","):
            n = n.strip()
            if re.fullmatch(r"[a-z_]\w*", n):
                out.append({"name": n, "unwind": None})
    return out


def parse_output(out):
    """split cargo-kani regular output into per-harness results"""
    res = {}
    cur = None
    blocks = re.split(r"(?m)^Checking harness ", out)
    for b in blocks[1:]:
        name_line, _, rest = b.partition("\n")
        full = name_line.strip().rstrip(".")
        name = full.split("::")[-1]
        h = {"name": name, "full": full, "failed_checks": [], "undetermined": [], "checks": 0, "covers": None, "status": "unknown"}
        # (a description may span several lines: rustfmt wraps long assert! expressions and the text is quoted verbatim)
        for m in re.finditer(r"Check \d+: ([^\n]+)\n\s*- Status: (\w+)\n\s*- Description: \"(.*?)\"\n(?:\s*- Location: ([^\n]*)\n)?", rest, re.S):
            cid, st, desc, locn = m.group(1), m.group(2), m.group(3), m.group(4)
            if ".cover." in cid:
                continue
            h["checks"] += 1
            if st == "FAILURE":
                h["failed_checks"].append({"id": cid, "description": desc, "location": (locn or "").strip()})
            elif st in ("UNDETERMINED", "UNREACHABLE"):
                if st == "UNDETERMINED":
                    h["undetermined"].append({"id": cid, "description": desc})
        m = re.search(r"\*\* (\d+) of (\d+) failed", rest)
        if m:
            h["checks"] = max(h["checks"], int(m.group(2)))
        m = re.search(r"\*\* (\d+) of (\d+) cover properties satisfied", rest)
        if m:
            h["covers"] = [int(m.group(1)), int(m.group(2))]
        m = re.search(r"Verification Time: ([0-9.]+)s", rest)
        if m:
            h["time_s"] = float(m.group(1))
        if "VERIFICATION:- SUCCESSFUL" in rest:
            h["status"] = "ok"
            if h["covers"] and h["covers"][0] != h["covers"][1]:
                h["status"] = "vacuous"
                h["reason"] = f"cover properties satisfied {h['covers'][0]} of {h['covers'][1]} (an assumption excludes a case that must be reachable)"
        elif "VERIFICATION:- FAILED" in rest:
            real = [c for c in h["failed_checks"] if "unwinding assertion" not in c["description"]
                    and "unsupported" not in c["description"].lower() and "is not currently supported" not in c["description"]]
            if real:
                h["failed_checks"] = real
                h["status"] = "failed"
            else:
                h["status"] = "undecided"
                h["reason"] = "; ".join(c["description"] for c in h["failed_checks"])[:300] or "failed without a failing check (unsupported construct / undetermined)"
                h["failed_checks"] = []
        res[name] = h
    return res


def module_path(group):
    """fully qualified module of a harness group: derived from the file its `mod` line is appended to"""
    info = KANI_GROUPS[group]
    if "fragment_unit" in info:
        return f"verif_kani_{group}"
    rel = info["attach"]
    assert rel.startswith("src/") and rel.endswith(".rs")
    parts = rel[4:-3].split("/")
    if parts[-1] in ("lib", "mod", "main"):
        parts = parts[:-1]
    return "::".join(parts + [f"verif_kani_{group}"])


def run_kani(src, harnesses, extra_args=None, timeout=3600, jobs=None, group=None):
    # --exact: Kani's default harness filter is a substring match (`nthash_new_k5` would also select ..._k51, _k53, ...)
    cmd = ["cargo", "kani", "--output-format", "regular", "--exact"]
    for h in harnesses:
        cmd += ["--harness", (module_path(group) + "::" + h) if group else h]
    cmd += extra_args or []
    ktarget = ktarget_for(src)
    env = dict(os.environ, CARGO_NET_OFFLINE="true", CARGO_TARGET_DIR=ktarget)
    os.makedirs(ktarget, exist_ok=True)
    shell = f"ulimit -v {MEM_KB}; exec " + " ".join("'" + c + "'" for c in cmd)
    t0 = time.time()
    try:
        p = subprocess.run(["bash", "-c", shell], cwd=src, env=env, capture_output=True, text=True, timeout=timeout)
        out = p.stdout + "\n" + p.stderr
        rc = p.returncode
    except subprocess.TimeoutExpired as e:
        out = (e.stdout or b"").decode("utf8", "replace") if isinstance(e.stdout, bytes) else (e.stdout or "")
        out += "\nTIMEOUT"
        rc = 124
    return {"rc": rc, "out": out, "wall_s": time.time() - t0, "cmd": "CARGO_NET_OFFLINE=true " + " ".join(cmd)}


def expected_refusal(h, info):
    """a harness listed under `expect_fail_only` passes iff it fails and every failed check is the expected panic of the
    real code; if it verifies (the refusal is gone) or fails differently, that is reported as a failure of the harness"""
    pat = (info.get("expect_fail_only") or {}).get(h["name"])
    if not pat:
        return h
    if h["status"] == "failed":
        other = [c for c in h["failed_checks"] if not re.search(pat, c.get("id", "") + " " + c["description"])]
        if not other:
            return dict(h, status="ok", failed_checks=[], expected_refusal=[c.get("id", "") + ": " + c["description"] for c in h["failed_checks"]])
        return dict(h, failed_checks=other)
    if h["status"] == "ok":
        return dict(h, status="failed", failed_checks=[{"id": "expected-refusal", "description": "the call returned: the expected refusal (" + pat + ") did not happen", "location": ""}])
    return h


def run_groups(prop, cfg, tier):
    groups = [g for g, _ in cfg["kani"]]
    bounded = list(cfg.get("bounded_quick", []))
    if tier == "thorough" or cfg.get("bounded_in_quick"):
        bounded += cfg.get("bounded", [])
    if tier == "thorough":
        bounded += cfg.get("bounded_thorough", [])
    for b in bounded:
        if b["group"] not in groups:
            groups.append(b["group"])
    need = list(dict.fromkeys(groups))
    result = {"groups": [], "bounded": [], "attached": []}
    if not need:
        return result
    src, attached = prepare_scratch(prop, [g for g in need if "fragment_unit" not in KANI_GROUPS[g]])
    result["attached"] = attached
    result["src"] = src
    attach_errors = {a["group"]: a["error"] for a in attached if "error" in a}
    for g, names in cfg["kani"]:
        info = KANI_GROUPS[g]
        hfile = os.path.join(VERIF, "kani", info["file"])
        gres = {"group": g, "harnesses": [], "complete": info["complete"]}
        if g in attach_errors:
            gres["error"] = attach_errors[g]
            result["groups"].append(gres)
            continue
        if not os.path.exists(hfile):
            gres["error"] = f"harness file {info['file']} missing"
            result["groups"].append(gres)
            continue
        avail = list_harnesses(hfile)
        sel = [h["name"] for h in avail if (names is None or h["name"] in names) and not h["name"].startswith("bounded_")
               and (tier == "thorough" or not h["name"].startswith("thorough_"))]
        if not sel:
            gres["error"] = "no harness selected"
            result["groups"].append(gres)
            continue
        gsrc = src
        if "fragment_unit" in info:
            gsrc, err = prepare_fragment(prop, g)
            if gsrc:
                result.setdefault("frag_src", {})[g] = gsrc
            if not gsrc:
                gres["error"] = err
                result["groups"].append(gres)
                continue
        r = run_kani(gsrc, sel, extra_args=info.get("args"), timeout=info.get("timeout", 900 if tier == "quick" else 7200), group=g)
        gres["cmd"] = r["cmd"]
        gres["wall_s"] = round(r["wall_s"], 1)
        parsed = parse_output(r["out"])
        for n in sel:
            if n in parsed:
                gres["harnesses"].append(expected_refusal(parsed[n], info))
            else:
                errs = [l for l in r["out"].splitlines() if l.startswith("error")]
                tail = (" | ".join(errs[:3]) or r["out"].strip()[-200:])[:300]
                gres["harnesses"].append({"name": n, "status": "undecided", "reason": "no result (build error, timeout or out of memory): " + tail,
                                          "failed_checks": [], "checks": 0})
        result["groups"].append(gres)
    for b in bounded:
        bsrc = src
        binfo = KANI_GROUPS[b["group"]]
        if "fragment_unit" in binfo:
            bsrc = result.get("frag_src", {}).get(b["group"])
            if not bsrc:
                bsrc, err = prepare_fragment(prop, b["group"])
                if bsrc:
                    result.setdefault("frag_src", {})[b["group"]] = bsrc
            if not bsrc:
                result["bounded"].append({"name": b["name"], "status": "undecided", "failed_checks": [], "checks": 0,
                                          "reason": err, "bound": b["bound"], "group": b["group"]})
                continue
        # one entry may name several harnesses of the same group and bound: one cargo-kani invocation, one record each
        bnames = b.get("names") or [b["name"]]
        r = run_kani(bsrc, bnames, extra_args=b.get("args"), timeout=b.get("timeout", 3600), group=b["group"])
        parsed = parse_output(r["out"])
        for bn in bnames:
            h = parsed.get(bn, {"name": bn, "status": "undecided", "failed_checks": [], "checks": 0,
                                "reason": "no result: " + r["out"].strip()[-300:]})
            h["bound"] = b["bound"]
            h["group"] = b["group"]
            h["args"] = b.get("args")
            h["time_s"] = round(r["wall_s"], 1) if len(bnames) == 1 else h.get("time_s")
            result["bounded"].append(h)
    return result


def concrete_playback(src, harness, extra_args=None, timeout=1800, group=None):
    """ask Kani for concrete values of a failing harness (printed as a unit test)"""
    # the playback flags belong to cargo-kani: they must come before a trailing `--cbmc-args ...`
    ea = list(extra_args or [])
    cut = ea.index("--cbmc-args") if "--cbmc-args" in ea else len(ea)
    ea = ea[:cut] + ["-Z", "concrete-playback", "--concrete-playback=print"] + ea[cut:]
    r = run_kani(src, [harness], extra_args=ea, timeout=timeout, group=group)
    m = re.search(r"Concrete playback unit test for `[^`]*`:\n```\n(.*?)```", r["out"], re.S)
    return m.group(1) if m else None


def playback(prop, group, unit_test, timeout=1800):
    """replay a Kani counterexample natively (`cargo kani playback`): the generated unit test feeds the concrete values to
    the harness compiled against the real code.  Returns {"reproduced": True|False|None, "tail": ...}."""
    info = KANI_GROUPS[group]
    m = re.search(r"fn (kani_concrete_playback_\w+)", unit_test)
    if not m:
        return {"reproduced": None, "tail": "no test function in the playback text"}
    tname = m.group(1)
    base = os.path.join(WORK, "playback", prop)
    shutil.rmtree(base, ignore_errors=True)
    os.makedirs(base, exist_ok=True)
    hcopy = os.path.join(base, "harness_with_playback.rs")
    with open(hcopy, "w") as f:
        f.write(open(os.path.join(VERIF, "kani", info["file"])).read())
        # (fully qualified std names: a harness module may re-bind `Vec` / `vec!` to stand-ins)
        f.write("\n" + unit_test.replace("Vec<Vec<u8>>", "std::vec::Vec<std::vec::Vec<u8>>").replace("vec![", "std::vec![") + "\n")
    if "fragment_unit" in info:
        src = os.path.join(base, "crate")
        os.makedirs(os.path.join(src, "src"), exist_ok=True)
        gen = gen_unit(info["fragment_unit"], None, outdir=os.path.join(WORK, "gen", prop), vac=False)
        if gen["rc"] != 0:
            return {"reproduced": None, "tail": "extraction failed"}
        with open(os.path.join(src, "Cargo.toml"), "w") as f:
            f.write(f'[package]\nname = "frag_{group}"\nversion = "0.0.0"\nedition = "2021"\n[lib]\npath = "src/lib.rs"\n[workspace]\n')
        with open(os.path.join(src, "src", "lib.rs"), "w") as f:
            f.write("#![allow(unused)]\n" + open(gen["rs"]).read())
            f.write(f'\n#[cfg(kani)]\n#[path = "{hcopy}"]\nmod verif_kani_{group};\n')
    else:
        src = os.path.join(base, "crate")
        os.makedirs(src, exist_ok=True)
        subprocess.run(["rsync", "-rlp", "--checksum", "--delete", "--exclude", "target", "--exclude", ".git", REPO + "/", src + "/"], check=True)
        if "incrate_unit" in info:
            gen = gen_unit(info["incrate_unit"], None, outdir=os.path.join(WORK, "gen", prop), vac=False)
            if gen["rc"] != 0:
                return {"reproduced": None, "tail": "extraction failed"}
            shutil.copyfile(gen["rs"], os.path.join(src, "src", f"verif_frag_{group}.rs"))
        for (afile, ahar, aname) in info.get("attach_also", []):
            with open(os.path.join(src, afile), "a") as f:
                f.write(f'\n#[cfg(kani)]\n#[path = "{os.path.join(VERIF, "kani", ahar)}"]\npub(crate) mod verif_kani_{aname};\n')
        with open(os.path.join(src, info["attach"]), "a") as f:
            f.write(f'\n#[cfg(kani)]\n#[path = "{hcopy}"]\nmod verif_kani_{group};\n')
    cmd = ["cargo", "kani", "playback", "-Z", "concrete-playback"] + [a for a in (info.get("args") or []) if a in ("-Z", "stubbing")] + ["--", tname]
    env = dict(os.environ, CARGO_NET_OFFLINE="true", CARGO_TARGET_DIR=os.path.join(KTARGET_ROOT, "playback-" + prop))
    try:
        p = subprocess.run(cmd, cwd=src, env=env, capture_output=True, text=True, timeout=timeout)
    except subprocess.TimeoutExpired:
        return {"reproduced": None, "tail": "timeout"}
    out = p.stdout + p.stderr
    res = re.search(r"test result: (\w+)\. (\d+) passed; (\d+) failed", out)
    if not res:
        return {"reproduced": None, "tail": out.strip()[-400:], "cmd": " ".join(cmd)}
    failed = int(res.group(3)) > 0
    panic = [l.strip() for l in out.splitlines() if "panicked at" in l or "assertion" in l][:3]
    return {"reproduced": failed, "tail": " | ".join(panic)[:400] or res.group(0), "cmd": "CARGO_NET_OFFLINE=true " + " ".join(cmd), "test": tname}
