"""shared helpers: work area, vx invocation, verus invocation and diagnostics parsing"""
import os, subprocess, json, time, shutil

VERIF = os.path.dirname(os.path.dirname(os.path.abspath(__file__)))
REPO = os.environ.get("SKA_REPO", "/repo")
WORK = os.environ.get("SKA_VERIF_WORK", "/var/tmp/ska-verif")
OUT = os.environ.get("SKA_VERIF_OUT", VERIF)   # where evidence/ and replays/ are written (selftest redirects it)
VX = os.path.join(VERIF, "tools/vx/target/release/vx")

def width_vars(w):
    if w == "u64":
        bits = 64
        ones = "0xFFFF_FFFF_FFFF_FFFFu64"
    else:
        bits = 128
        ones = "0xFFFF_FFFF_FFFF_FFFF_FFFF_FFFF_FFFF_FFFFu128"
    wb = bits // 2
    kmax = wb - 1
    hmax = (kmax - 1) // 2
    return {"W": w, "BITS": bits, "ALLONES": ones, "WB": wb, "KMAX": kmax, "KM1": kmax - 1,
            "B2": bits - 2, "B4": bits - 4, "B6": bits - 6, "HMAX": hmax, "HB": 2 * hmax, "HB2": 2 * hmax - 2}

def ensure_vx():
    if not os.path.exists(VX):
        env = dict(os.environ, CARGO_NET_OFFLINE="true")
        subprocess.run(["cargo", "build", "--release", "--offline"], cwd=os.path.join(VERIF, "tools/vx"),
                       env=env, check=True, stdout=subprocess.DEVNULL, stderr=subprocess.DEVNULL)

def gen_unit(unit, w=None, outdir=None, repo=None, vac=True):
    ensure_vx()
    outdir = outdir or os.path.join(WORK, "gen")
    os.makedirs(outdir, exist_ok=True)
    tag = unit + ("_" + w if w else "")
    rs = os.path.join(outdir, tag + ".rs")
    js = os.path.join(outdir, tag + ".json")
    cmd = [VX, repo or REPO, os.path.join(VERIF, "specs"), os.path.join(VERIF, "specs", unit + ".vx"), rs, js]
    # note: -D / --vac arguments follow the five positional ones
    if vac:
        cmd.append("--vac")
    if w:
        for k, v in width_vars(w).items():
            cmd += ["-D", f"{k}={v}"]
    p = subprocess.run(cmd, capture_output=True, text=True)
    return {"rc": p.returncode, "out": p.stdout + p.stderr, "rs": rs, "json": js, "tag": tag, "cmd": " ".join(cmd)}

def run_verus(rs, extra=None, rlimit=None, timeout=1800):
    cmd = ["verus", rs, "--output-json", "--time-expanded", "--multiple-errors", "8", "--triggers-mode", "silent"]
    if rlimit:
        cmd += ["--rlimit", str(rlimit)]
    cmd += (extra or [])
    cmd += ["--", "--error-format=json"]
    t0 = time.time()
    try:
        p = subprocess.run(cmd, capture_output=True, text=True, cwd=os.path.dirname(rs), timeout=timeout)
    except subprocess.TimeoutExpired:
        return {"rc": 124, "diags": [], "summary": {"timeout": True}, "raw": {}, "wall_s": time.time() - t0, "cmd": " ".join(cmd), "stderr": "timeout"}
    diags = []
    for line in p.stderr.splitlines():
        line = line.strip()
        if line.startswith("{"):
            try:
                d = json.loads(line)
            except Exception:
                continue
            if d.get("$message_type") == "diagnostic" and d.get("level") in ("error", "warning"):
                if d["message"].startswith("aborting due to"):
                    continue
                diags.append(d)
    raw = {}
    try:
        raw = json.loads(p.stdout[p.stdout.index("{"):])
    except Exception:
        pass
    vr = raw.get("verification-results", {})
    return {"rc": p.returncode, "diags": diags, "summary": vr, "raw": raw, "wall_s": time.time() - t0,
            "cmd": " ".join(cmd), "stderr": p.stderr if not raw else ""}
