use vstd::prelude::*;
verus! {

// ---------------- spec vocabulary ----------------
pub open spec fn off(r: Seq<Vec<u8>>, c: int) -> int
    decreases c
{
    if c <= 0 { 0 } else { off(r, c - 1) + r[c - 1]@.len() }
}

pub open spec fn s_is_ambiguous(b: u8) -> bool {
    let l = b | 0x20u8;
    !(l == 0x61 || l == 0x63 || l == 0x67 || l == 0x74 || l == 0x75 || l == 0x2d)
}

pub fn is_ambiguous(mut base: u8) -> (r: bool)
    ensures r == s_is_ambiguous(base)
{
    base |= 0x20; // to lower
    !matches!(base, b'a' | b'c' | b'g' | b't' | b'u' | b'-')
}

pub open spec fn covered(hist: Seq<(u8, usize)>, h: int, a: int) -> bool {
    exists|j: int| 0 <= j < hist.len() && #[trigger] hist[j].1 - h <= a && a <= hist[j].1 + h
}

pub open spec fn is_mid(hist: Seq<(u8, usize)>, a: int) -> bool {
    exists|j: int| 0 <= j < hist.len() && #[trigger] hist[j].1 == a
}

pub open spec fn sorted(hist: Seq<(u8, usize)>) -> bool {
    forall|i: int, j: int| 0 <= i < j < hist.len() ==> hist[i].1 < hist[j].1
}

// ---------------- code ----------------
pub struct AlnWriter<'a> {
    next_pos: usize,
    curr_chrom: usize,
    last_mapped: usize,
    last_written: usize,
    chrom_offset: usize,
    ref_seq: &'a Vec<Vec<u8>>,
    seq_out: Vec<u8>,
    half_split_len: usize,
    finalised: bool,
    repeat_regions: &'a Vec<usize>,
    mask_ambig: bool,
    _middle_out: Vec<(u8, usize)>,
}

impl<'a> AlnWriter<'a> {
    spec fn h(&self) -> int { self.half_split_len as int }
    spec fn hist(&self) -> Seq<(u8, usize)> { self._middle_out@ }
    spec fn r(&self) -> Seq<Vec<u8>> { self.ref_seq@ }
    spec fn cur_len(&self) -> int {
        if self.curr_chrom < self.r().len() { self.r()[self.curr_chrom as int]@.len() as int } else { 0 }
    }
    spec fn has_cur(&self) -> bool {
        self.hist().len() > 0 && self.hist().last().1 >= self.chrom_offset
    }
    // reference byte at absolute position a that lies in the current contig
    spec fn refc(&self, a: int) -> u8 {
        self.r()[self.curr_chrom as int]@[a - self.chrom_offset]
    }

    spec fn structural(&self) -> bool {
        &&& self.arith()
        &&& self.hist_ok()
    }

    spec fn arith(&self) -> bool {
        &&& 1 <= self.h() <= 31
        &&& self.curr_chrom <= self.r().len()
        &&& self.r().len() <= usize::MAX
        &&& self.chrom_offset == off(self.r(), self.curr_chrom as int)
        &&& self.seq_out@.len() == off(self.r(), self.r().len() as int)
        &&& self.seq_out@.len() < usize::MAX - 128
        &&& self.last_written <= self.seq_out@.len()
        &&& self.last_mapped <= self.seq_out@.len()
    }

    #[verifier::opaque]
    spec fn hist_ok(&self) -> bool {
        &&& sorted(self.hist())
        &&& (forall|j: int| 0 <= j < self.hist().len() && #[trigger] self.hist()[j].1 < self.chrom_offset ==> self.hist()[j].1 + self.h() < self.chrom_offset)
        &&& (forall|j: int| 0 <= j < self.hist().len() && #[trigger] self.hist()[j].1 >= self.chrom_offset ==>
                self.curr_chrom < self.r().len() && self.hist()[j].1 >= self.chrom_offset + self.h() && self.hist()[j].1 + self.h() < self.chrom_offset + self.cur_len())
    }

    spec fn cat_all(&self) -> Seq<u8> { cat(self.r(), self.r().len() as int) }

    spec fn flank(&self, a: int) -> u8 {
        if covered(self.hist(), self.h(), a) { self.cat_all()[a] } else { 0x2du8 }
    }

    #[verifier::opaque]
    spec fn content(&self) -> bool {
        let o = self.chrom_offset as int;
        let lw = self.last_written as int;
        let lm = self.last_mapped as int;
        let h = self.h();
        let n = self.seq_out@.len() as int;
        &&& (forall|a: int| 0 <= a < o && !is_mid(self.hist(), a) ==> #[trigger] self.seq_out@[a] == self.flank(a))
        &&& (self.has_cur() ==> {
                &&& o + lm == self.hist().last().1
                &&& is_mid(self.hist(), o + lw)
                &&& h <= lw <= lm <= lw + h
                &&& self.next_pos == lw + h + 1
                &&& (forall|a: int| o <= a <= o + lw && !is_mid(self.hist(), a) ==> #[trigger] self.seq_out@[a] == self.flank(a))
                &&& (forall|a: int| o + lw < a < n ==> #[trigger] self.seq_out@[a] == 0x2du8)
                &&& (forall|a: int| o + lw < a < n ==> (#[trigger] covered(self.hist(), h, a) <==> a <= o + lm + h))
            })
        &&& (!self.has_cur() ==> {
                &&& self.next_pos == h
                &&& (lw == 0 || lm + h <= lw)
                &&& (forall|a: int| o <= a < n ==> #[trigger] self.seq_out@[a] == 0x2du8)
            })
    }

    spec fn wf(&self) -> bool {
        &&& self.structural()
        &&& self.content()
        &&& !self.finalised
    }

    fn fill_fwd_bases(&mut self, maximum: usize)
        requires
            old(self).arith(),
            old(self).curr_chrom < old(self).r().len(),
            maximum <= old(self).cur_len(),
        ensures
            final(self).next_pos == old(self).next_pos,
            final(self).curr_chrom == old(self).curr_chrom,
            final(self).last_mapped == old(self).last_mapped,
            final(self).chrom_offset == old(self).chrom_offset,
            final(self).ref_seq == old(self).ref_seq,
            final(self).half_split_len == old(self).half_split_len,
            final(self).finalised == old(self).finalised,
            final(self).repeat_regions == old(self).repeat_regions,
            final(self).mask_ambig == old(self).mask_ambig,
            final(self)._middle_out == old(self)._middle_out,
            final(self).seq_out@.len() == old(self).seq_out@.len(),
            ({
                let o = old(self).chrom_offset as int;
                let lw = old(self).last_written as int;
                let over = if old(self).last_mapped + old(self).h() >= lw { old(self).last_mapped + old(self).h() - lw } else { 0 };
                let e = if lw + 1 + over <= maximum { lw + 1 + over } else { maximum as int };
                if lw > 0 && e > lw + 1 {
                    &&& final(self).last_written == e
                    &&& (forall|a: int| 0 <= a < old(self).seq_out@.len() ==> #[trigger] final(self).seq_out@[a] ==
                            (if o + lw + 1 <= a < o + e { old(self).cat_all()[a] } else { old(self).seq_out@[a] }))
                } else {
                    &&& final(self).last_written == old(self).last_written
                    &&& final(self).seq_out@ == old(self).seq_out@
                }
            }),
    {
        proof {
            lemma_off_mono(self.r(), self.curr_chrom as int, self.r().len() as int);
            lemma_cat_index_all(self.r(), self.curr_chrom as int);
        }
        // bases at the end of last valid match not yet written
        if self.last_written > 0 {
            let last_match_overhang =
                (self.last_mapped + self.half_split_len).saturating_sub(self.last_written);
            let start = self.last_written + 1;
            let end = usize::min(start + last_match_overhang, maximum);
            if end > start {
                self.seq_out.as_mut_slice()[(start + self.chrom_offset)..(end + self.chrom_offset)]
                    .copy_from_slice(&self.ref_seq[self.curr_chrom][start..end]);
                self.last_written = end;
            }
        }
    }

    // Fill up to the end of the contig and update indices
    fn fill_contig(&mut self)
        requires
            old(self).wf(),
            old(self).curr_chrom < old(self).r().len(),
        ensures
            final(self).wf(),
            final(self).curr_chrom == old(self).curr_chrom + 1,
            final(self).ref_seq == old(self).ref_seq,
            final(self).half_split_len == old(self).half_split_len,
            final(self).repeat_regions == old(self).repeat_regions,
            final(self).mask_ambig == old(self).mask_ambig,
            final(self)._middle_out == old(self)._middle_out,
    {
        proof {
            reveal(AlnWriter::content);
            reveal(AlnWriter::hist_ok);
            lemma_off_mono(self.r(), self.curr_chrom as int, self.r().len() as int);
            lemma_off_mono(self.r(), self.curr_chrom as int + 1, self.r().len() as int);
        }
        let chrom_length = self.ref_seq[self.curr_chrom].len();
        self.fill_fwd_bases(chrom_length);
        self.chrom_offset += chrom_length;
        self.curr_chrom += 1;
        self.next_pos = self.half_split_len;
    }

    fn write_split_kmer(&mut self, mapped_pos: usize, mapped_chrom: usize, base: u8)
        requires
            old(self).wf(),
            mapped_chrom < old(self).r().len(),
            mapped_chrom >= old(self).curr_chrom,
            old(self).h() <= mapped_pos,
            mapped_pos + old(self).h() < old(self).r()[mapped_chrom as int]@.len(),
            old(self).hist().len() > 0 ==> old(self).hist().last().1 < off(old(self).r(), mapped_chrom as int) + mapped_pos,
        ensures
            final(self).wf(),
            final(self).curr_chrom == mapped_chrom,
            final(self).ref_seq == old(self).ref_seq,
            final(self).half_split_len == old(self).half_split_len,
            final(self).repeat_regions == old(self).repeat_regions,
            final(self).mask_ambig == old(self).mask_ambig,
            final(self).hist() == old(self).hist().push((
                if s_is_ambiguous(base) && old(self).mask_ambig { 0x4eu8 } else { base },
                (off(old(self).r(), mapped_chrom as int) + mapped_pos) as usize)),
    {
        while mapped_chrom > self.curr_chrom
            invariant
                self.wf(),
                self.curr_chrom <= mapped_chrom < self.r().len(),
                self.ref_seq == old(self).ref_seq,
                self.half_split_len == old(self).half_split_len,
                self.repeat_regions == old(self).repeat_regions,
                self.mask_ambig == old(self).mask_ambig,
                self._middle_out == old(self)._middle_out,
            decreases mapped_chrom - self.curr_chrom
        {
            self.fill_contig();
        }
        proof {
            lemma_off_mono(self.r(), self.curr_chrom as int, self.r().len() as int);
            lemma_cat_index_all(self.r(), self.curr_chrom as int);
        }
        let ghost g0 = *self;
        let ghost o = self.chrom_offset as int;
        let ghost h = self.h();
        let ghost n = self.seq_out@.len() as int;
        let ghost pos = mapped_pos as int;
        // Middle bases may clash with the flanks in complex repeats, which then
        // are copied from reference. Deal with these in `finalise`.
        self._middle_out.push((
            if is_ambiguous(base) && self.mask_ambig {
                b'N'
            } else {
                base
            },
            mapped_pos + self.chrom_offset,
        ));
        let ghost e = self.hist().last();
        proof {
            assert(self.hist() == g0.hist().push(e));
        }

        if mapped_pos < self.next_pos {
            self.last_mapped = mapped_pos;
            proof { lemma_wsk_deferred(g0, *self, pos, e); }
        } else {
            // Write bases between last match and this one
            if mapped_pos > self.next_pos {
                self.fill_fwd_bases(mapped_pos - self.half_split_len);
            }
            let ghost g2 = *self;

            // First half of split k-mer
            let start = mapped_pos - self.half_split_len;
            let end = mapped_pos;
            self.seq_out.as_mut_slice()[(start + self.chrom_offset)..(end + self.chrom_offset)]
                .copy_from_slice(&self.ref_seq[self.curr_chrom][start..end]);

            // update indices
            self.next_pos = mapped_pos + self.half_split_len + 1;
            self.last_mapped = mapped_pos;
            self.last_written = mapped_pos;
            proof {
                assert(forall|a: int| 0 <= a < n ==> #[trigger] self.seq_out@[a] == (if o + pos - h <= a < o + pos { g0.cat_all()[a] } else { g2.seq_out@[a] }));
                lemma_wsk_write(g0, g2, *self, pos, e);
            }
        }
    }

    // absolute positions before contig c are entirely '-' or flank in a finished writer
    spec fn final_val(&self, a: int) -> u8 {
        if is_mid(self.hist(), a) {
            let j = choose|j: int| 0 <= j < self.hist().len() && #[trigger] self.hist()[j].1 == a;
            self.hist()[j].0
        } else {
            self.flank(a)
        }
    }

    spec fn in_rep(&self, a: int) -> bool {
        exists|i: int| 0 <= i < self.repeat_regions@.len() && #[trigger] self.repeat_regions@[i] == a
    }

    fn finalise(&mut self)
        requires
            old(self).wf(),
            forall|i: int| 0 <= i < old(self).repeat_regions@.len() ==> #[trigger] old(self).repeat_regions@[i] < old(self).seq_out@.len(),
        ensures
            final(self).finalised,
            final(self).hist() == old(self).hist(),
            final(self).ref_seq == old(self).ref_seq,
            final(self).half_split_len == old(self).half_split_len,
            final(self).repeat_regions == old(self).repeat_regions,
            final(self).seq_out@.len() == old(self).seq_out@.len(),
            forall|a: int| 0 <= a < final(self).seq_out@.len() ==> #[trigger] final(self).seq_out@[a] ==
                (if final(self).in_rep(a) && final(self).final_val(a) != 0x2du8 { 0x4eu8 } else { final(self).final_val(a) }),
    {
        if !self.finalised {
            while self.curr_chrom < self.ref_seq.len()
                invariant
                    self.wf(),
                    self.ref_seq == old(self).ref_seq,
                    self.half_split_len == old(self).half_split_len,
                    self.repeat_regions == old(self).repeat_regions,
                    self.mask_ambig == old(self).mask_ambig,
                    self._middle_out == old(self)._middle_out,
                    self.seq_out@.len() == old(self).seq_out@.len(),
                decreases self.ref_seq@.len() - self.curr_chrom
            {
                self.fill_contig();
            }
            let ghost g0 = *self;
            proof {
                reveal(AlnWriter::content);
                reveal(AlnWriter::hist_ok);
                // all contigs done: every non-middle position is final
                assert(forall|a: int| 0 <= a < g0.seq_out@.len() && !is_mid(g0.hist(), a) ==> #[trigger] g0.seq_out@[a] == g0.flank(a));
                assert(forall|j: int| 0 <= j < g0.hist().len() ==> #[trigger] g0.hist()[j].1 < g0.seq_out@.len());
            }
            // Make sure any ambiguous bases are correct
            for (middle_base, middle_pos) in it: &self._middle_out
                invariant
                    self.seq_out@.len() == g0.seq_out@.len(),
                    self._middle_out == g0._middle_out,
                    self.ref_seq == g0.ref_seq,
                    self.half_split_len == g0.half_split_len,
                    self.repeat_regions == g0.repeat_regions,
                    self.finalised == g0.finalised,
                    sorted(g0.hist()),
                    forall|j: int| 0 <= j < g0.hist().len() ==> #[trigger] g0.hist()[j].1 < g0.seq_out@.len(),
                    forall|j: int| 0 <= j < it.index@ ==> self.seq_out@[#[trigger] g0.hist()[j].1 as int] == g0.hist()[j].0,
                    forall|a: int| 0 <= a < g0.seq_out@.len() && (forall|j: int| 0 <= j < it.index@ ==> #[trigger] g0.hist()[j].1 != a) ==> #[trigger] self.seq_out@[a] == g0.seq_out@[a],
            {
                proof {
                    // positions are strictly increasing, so this write does not disturb earlier ones
                    assert forall|j: int| 0 <= j < it.index@ implies #[trigger] g0.hist()[j].1 != g0.hist()[it.index@ as int].1 by { }
                }
                self.seq_out[*middle_pos] = *middle_base;
            }
            let ghost g1 = *self;
            proof {
                assert forall|a: int| 0 <= a < g0.seq_out@.len() implies #[trigger] g1.seq_out@[a] == g0.final_val(a) by {
                    if is_mid(g0.hist(), a) {
                        let j = choose|j: int| 0 <= j < g0.hist().len() && #[trigger] g0.hist()[j].1 == a;
                        assert(g1.seq_out@[g0.hist()[j].1 as int] == g0.hist()[j].0);
                    } else {
                        assert(forall|j: int| 0 <= j < g0.hist().len() ==> #[trigger] g0.hist()[j].1 != a);
                    }
                }
            }
            // Mask repeats
            for repeat_idx in it: self.repeat_regions
                invariant
                    self.seq_out@.len() == g0.seq_out@.len(),
                    self._middle_out == g0._middle_out,
                    self.ref_seq == g0.ref_seq,
                    self.half_split_len == g0.half_split_len,
                    self.repeat_regions == g0.repeat_regions,
                    self.finalised == g0.finalised,
                    forall|i: int| 0 <= i < g0.repeat_regions@.len() ==> #[trigger] g0.repeat_regions@[i] < g0.seq_out@.len(),
                    forall|a: int| 0 <= a < g0.seq_out@.len() ==> #[trigger] self.seq_out@[a] ==
                        (if (exists|i: int| 0 <= i < it.index@ && #[trigger] g0.repeat_regions@[i] == a) && g1.seq_out@[a] != 0x2du8 { 0x4eu8 } else { g1.seq_out@[a] }),
            {
                if self.seq_out[*repeat_idx] != b'-' {
                    self.seq_out[*repeat_idx] = b'N';
                }
            }
            self.finalised = true;
        }
    }
}

pub proof fn lemma_push_cov(hist: Seq<(u8, usize)>, h: int, e: (u8, usize), a: int)
    ensures covered(hist.push(e), h, a) <==> (covered(hist, h, a) || (e.1 - h <= a && a <= e.1 + h))
{
    let hp = hist.push(e);
    if covered(hist, h, a) {
        let j = choose|j: int| 0 <= j < hist.len() && #[trigger] hist[j].1 - h <= a && a <= hist[j].1 + h;
        assert(hp[j] == hist[j]);
        assert(0 <= j < hp.len() && hp[j].1 - h <= a && a <= hp[j].1 + h);
    }
    if e.1 - h <= a && a <= e.1 + h {
        let j = hist.len() as int;
        assert(hp[j] == e);
        assert(0 <= j < hp.len() && hp[j].1 - h <= a && a <= hp[j].1 + h);
    }
    if covered(hp, h, a) {
        let j = choose|j: int| 0 <= j < hp.len() && #[trigger] hp[j].1 - h <= a && a <= hp[j].1 + h;
        if j < hist.len() {
            assert(hp[j] == hist[j]);
            assert(0 <= j < hist.len() && hist[j].1 - h <= a && a <= hist[j].1 + h);
        } else {
            assert(hp[j] == e);
        }
    }
}

pub proof fn lemma_push_mid(hist: Seq<(u8, usize)>, e: (u8, usize), a: int)
    ensures is_mid(hist.push(e), a) <==> (is_mid(hist, a) || e.1 == a)
{
    let hp = hist.push(e);
    if is_mid(hist, a) {
        let j = choose|j: int| 0 <= j < hist.len() && #[trigger] hist[j].1 == a;
        assert(hp[j] == hist[j]);
        assert(0 <= j < hp.len() && hp[j].1 == a);
    }
    if e.1 == a {
        let j = hist.len() as int;
        assert(hp[j] == e);
        assert(0 <= j < hp.len() && hp[j].1 == a);
    }
    if is_mid(hp, a) {
        let j = choose|j: int| 0 <= j < hp.len() && #[trigger] hp[j].1 == a;
        if j < hist.len() {
            assert(hp[j] == hist[j]);
            assert(0 <= j < hist.len() && hist[j].1 == a);
        } else {
            assert(hp[j] == e);
        }
    }
}

// all entries of a sorted history are <= its last entry
pub proof fn lemma_cov_bound(hist: Seq<(u8, usize)>, h: int, a: int)
    requires sorted(hist), hist.len() > 0, covered(hist, h, a)
    ensures a <= hist.last().1 + h
{
    let j = choose|j: int| 0 <= j < hist.len() && #[trigger] hist[j].1 - h <= a && a <= hist[j].1 + h;
    if j < hist.len() - 1 {
        assert(hist[j].1 < hist[hist.len() - 1].1);
    }
}

pub proof fn lemma_mid_cov(hist: Seq<(u8, usize)>, h: int, m: int, a: int)
    requires is_mid(hist, m), m - h <= a <= m + h
    ensures covered(hist, h, a)
{
    let j = choose|j: int| 0 <= j < hist.len() && #[trigger] hist[j].1 == m;
    assert(0 <= j < hist.len() && hist[j].1 - h <= a && a <= hist[j].1 + h);
}

// frame: everything but the listed fields is as in g0, history extended by e
spec fn pushed(g0: AlnWriter, g: AlnWriter, e: (u8, usize)) -> bool {
    &&& g.curr_chrom == g0.curr_chrom
    &&& g.chrom_offset == g0.chrom_offset
    &&& g.ref_seq == g0.ref_seq
    &&& g.half_split_len == g0.half_split_len
    &&& g.finalised == g0.finalised
    &&& g.repeat_regions == g0.repeat_regions
    &&& g.mask_ambig == g0.mask_ambig
    &&& g._middle_out@ == g0._middle_out@.push(e)
    &&& g.seq_out@.len() == g0.seq_out@.len()
}

spec fn call_ok(g0: AlnWriter, pos: int, e: (u8, usize)) -> bool {
    &&& g0.wf()
    &&& g0.curr_chrom < g0.r().len()
    &&& g0.h() <= pos
    &&& pos + g0.h() < g0.cur_len()
    &&& (g0.hist().len() > 0 ==> g0.hist().last().1 < g0.chrom_offset + pos)
    &&& e.1 == g0.chrom_offset + pos
}

proof fn lemma_hist_facts(g0: AlnWriter, g: AlnWriter, pos: int, e: (u8, usize))
    requires call_ok(g0, pos, e), pushed(g0, g, e)
    ensures
        sorted(g.hist()),
        g.has_cur(),
        g.hist().last() == e,
        forall|a: int| #[trigger] covered(g.hist(), g0.h(), a) <==> (covered(g0.hist(), g0.h(), a) || (g0.chrom_offset + pos - g0.h() <= a && a <= g0.chrom_offset + pos + g0.h())),
        forall|a: int| #[trigger] is_mid(g.hist(), a) <==> (is_mid(g0.hist(), a) || a == g0.chrom_offset + pos),
        !g0.has_cur() ==> (forall|a: int| a >= g0.chrom_offset ==> !#[trigger] covered(g0.hist(), g0.h(), a)),
        g0.has_cur() ==> (forall|a: int| #[trigger] covered(g0.hist(), g0.h(), a) ==> a <= g0.chrom_offset + g0.last_mapped + g0.h()),
        g0.has_cur() ==> (forall|a: int| g0.chrom_offset + g0.last_written - g0.h() <= a <= g0.chrom_offset + g0.last_written ==> #[trigger] covered(g0.hist(), g0.h(), a)),
        g.hist_ok(),
{
    reveal(AlnWriter::content);
    reveal(AlnWriter::hist_ok);
    let o = g0.chrom_offset as int;
    let h = g0.h();
    let h0 = g0.hist();
    let h1 = g.hist();
    assert(h1 == h0.push(e));
    assert forall|a: int| #[trigger] covered(h1, h, a) <==> (covered(h0, h, a) || (o + pos - h <= a && a <= o + pos + h)) by {
        lemma_push_cov(h0, h, e, a);
    }
    assert forall|a: int| #[trigger] is_mid(h1, a) <==> (is_mid(h0, a) || a == o + pos) by {
        lemma_push_mid(h0, e, a);
    }
    assert forall|i: int, j: int| 0 <= i < j < h1.len() implies h1[i].1 < h1[j].1 by {
        if j < h0.len() {
            assert(h1[i] == h0[i] && h1[j] == h0[j]);
        } else {
            assert(h1[i] == h0[i]);
            if i < h0.len() - 1 { assert(h0[i].1 < h0[h0.len() - 1].1); }
        }
    }
    if !g0.has_cur() {
        assert forall|a: int| a >= o implies !#[trigger] covered(h0, h, a) by {
            if covered(h0, h, a) {
                let j = choose|j: int| 0 <= j < h0.len() && #[trigger] h0[j].1 - h <= a && a <= h0[j].1 + h;
                if j < h0.len() - 1 { assert(h0[j].1 < h0[h0.len() - 1].1); }
            }
        }
    } else {
        assert forall|a: int| #[trigger] covered(h0, h, a) implies a <= o + g0.last_mapped + h by {
            lemma_cov_bound(h0, h, a);
        }
        assert forall|a: int| o + g0.last_written - h <= a <= o + g0.last_written implies #[trigger] covered(h0, h, a) by {
            lemma_mid_cov(h0, h, o + g0.last_written, a);
        }
    }
    assert forall|j: int| 0 <= j < h1.len() && #[trigger] h1[j].1 < g.chrom_offset implies h1[j].1 + g.h() < g.chrom_offset by {
        if j < h0.len() { assert(h1[j] == h0[j]); }
    }
    assert forall|j: int| 0 <= j < h1.len() && #[trigger] h1[j].1 >= g.chrom_offset implies
                g.curr_chrom < g.r().len() && h1[j].1 >= g.chrom_offset + g.h() && h1[j].1 + g.h() < g.chrom_offset + g.cur_len() by {
        if j < h0.len() { assert(h1[j] == h0[j]); }
    }
}

proof fn lemma_wsk_deferred(g0: AlnWriter, g: AlnWriter, pos: int, e: (u8, usize))
    requires
        call_ok(g0, pos, e), pushed(g0, g, e),
        pos < g0.next_pos,
        g.seq_out@ == g0.seq_out@,
        g.next_pos == g0.next_pos,
        g.last_written == g0.last_written,
        g.last_mapped == pos,
    ensures g.wf()
{
    reveal(AlnWriter::content);
    lemma_hist_facts(g0, g, pos, e);
    lemma_off_mono(g0.r(), g0.curr_chrom as int, g0.r().len() as int);
    assert(g0.has_cur());
    assert(g.cat_all() == g0.cat_all());
    let o = g.chrom_offset as int;
    let lw = g.last_written as int;
    let lm = g.last_mapped as int;
    let h = g.h();
    let n = g.seq_out@.len() as int;
    assert(g.structural());
    assert(!g.finalised);
    assert(o + lm == g.hist().last().1);
    assert(is_mid(g.hist(), o + lw));
    assert(h <= lw <= lm <= lw + h);
    assert(g.next_pos == lw + h + 1);
    assert(forall|a: int| 0 <= a < o && !is_mid(g.hist(), a) ==> #[trigger] g.seq_out@[a] == g.flank(a));
    assert(forall|a: int| o <= a <= o + lw && !is_mid(g.hist(), a) ==> #[trigger] g.seq_out@[a] == g.flank(a));
    assert(forall|a: int| o + lw < a < n ==> #[trigger] g.seq_out@[a] == 0x2du8);
    assert(forall|a: int| o + lw < a < n ==> (#[trigger] covered(g.hist(), h, a) <==> a <= o + lm + h));
}

proof fn lemma_wsk_write(g0: AlnWriter, g2: AlnWriter, g: AlnWriter, pos: int, e: (u8, usize))
    requires
        call_ok(g0, pos, e), pushed(g0, g, e),
        pos >= g0.next_pos,
        g.next_pos == pos + g0.h() + 1,
        g.last_written == pos,
        g.last_mapped == pos,
        g2.seq_out@.len() == g0.seq_out@.len(),
        // g2 = after the optional fill
        ({
            let o = g0.chrom_offset as int;
            let lw = g0.last_written as int;
            let over = if g0.last_mapped + g0.h() >= lw { g0.last_mapped + g0.h() - lw } else { 0 };
            let mx = pos - g0.h();
            let e2 = if lw + 1 + over <= mx { lw + 1 + over } else { mx };
            if pos > g0.next_pos && lw > 0 && e2 > lw + 1 {
                forall|a: int| 0 <= a < g0.seq_out@.len() ==> #[trigger] g2.seq_out@[a] ==
                            (if o + lw + 1 <= a < o + e2 { g0.cat_all()[a] } else { g0.seq_out@[a] })
            } else {
                g2.seq_out@ == g0.seq_out@
            }
        }),
        forall|a: int| 0 <= a < g0.seq_out@.len() ==> #[trigger] g.seq_out@[a] ==
            (if g0.chrom_offset + pos - g0.h() <= a < g0.chrom_offset + pos { g0.cat_all()[a] } else { g2.seq_out@[a] }),
    ensures g.wf()
{
    reveal(AlnWriter::content);
    lemma_hist_facts(g0, g, pos, e);
    lemma_off_mono(g0.r(), g0.curr_chrom as int, g0.r().len() as int);
    assert(g.cat_all() == g0.cat_all());
}

pub open spec fn cat(r: Seq<Vec<u8>>, c: int) -> Seq<u8>
    decreases c
{
    if c <= 0 { Seq::<u8>::empty() } else { cat(r, c - 1) + r[c - 1]@ }
}

pub proof fn lemma_cat_len(r: Seq<Vec<u8>>, c: int)
    requires 0 <= c <= r.len()
    ensures cat(r, c).len() == off(r, c)
    decreases c
{
    if c > 0 { lemma_cat_len(r, c - 1); }
}

pub proof fn lemma_off_mono(r: Seq<Vec<u8>>, c: int, d: int)
    requires 0 <= c <= d <= r.len()
    ensures off(r, c) <= off(r, d), c < d ==> off(r, c) + r[c]@.len() <= off(r, d)
    decreases d
{
    if c < d {
        lemma_off_mono(r, c, d - 1);
    }
}

// bytes of contig c sit at [off(c), off(c)+len) of the concatenation of n >= c+1 contigs
pub proof fn lemma_cat_index(r: Seq<Vec<u8>>, c: int, n: int, p: int)
    requires 0 <= c < n <= r.len(), 0 <= p < r[c]@.len()
    ensures cat(r, n)[off(r, c) + p] == r[c]@[p], off(r, c) + p < cat(r, n).len()
    decreases n
{
    lemma_cat_len(r, n);
    lemma_cat_len(r, n - 1);
    lemma_off_mono(r, c, n);
    if c < n - 1 {
        lemma_cat_index(r, c, n - 1, p);
        lemma_off_mono(r, c, n - 1);
    }
}

pub proof fn lemma_cat_index_all(r: Seq<Vec<u8>>, c: int)
    requires 0 <= c < r.len()
    ensures forall|a: int| off(r, c) <= a < off(r, c) + r[c]@.len() ==> #[trigger] cat(r, r.len() as int)[a] == r[c]@[a - off(r, c)]
{
    assert forall|a: int| off(r, c) <= a < off(r, c) + r[c]@.len() implies #[trigger] cat(r, r.len() as int)[a] == r[c]@[a - off(r, c)] by {
        lemma_cat_index(r, c, r.len() as int, a - off(r, c));
    }
}

} // verus!
fn main() {}
