use vstd::prelude::*;
use std::cmp::Ordering;
verus! {

#[derive(Copy, Clone, Debug, PartialEq, Eq, Structural)]
pub enum QualFilter { NoFilter, Middle, Strict }

pub assume_specification [usize::div_ceil] (a: usize, b: usize) -> (r: usize)
    requires b != 0
    ensures r as int == (a as int + b as int - 1) / (b as int);

// ---------- specs ----------
pub open spec fn enc(b: u8) -> u8 { (b >> 1) & 0x3 }
pub open spec fn s_valid_base(b: u8) -> bool { b & 0xF != 14 }

pub open spec fn pack64(s: Seq<u8>) -> u64
    decreases s.len()
{
    if s.len() == 0 { 0 } else { (pack64(s.drop_last()) << 2) | (enc(s.last()) as u64) }
}

// NOTE: `>=` is what the property states (C12); the pinned tree has `>` in valid_qual.
pub open spec fn qual_ok(qual: Option<&[u8]>, min_qual: u8, p: int) -> bool {
    match qual { Some(q) => (q@[p] - 33) >= min_qual, None => true }
}

pub open spec fn pos_ok(seq: Seq<u8>, qual: Option<&[u8]>, strict: bool, min_qual: u8, p: int) -> bool {
    s_valid_base(seq[p]) && (!strict || qual_ok(qual, min_qual, p))
}

pub open spec fn window_ok(seq: Seq<u8>, qual: Option<&[u8]>, strict: bool, min_qual: u8, p: int, k: int) -> bool {
    forall|q: int| p <= q < p + k ==> pos_ok(seq, qual, strict, min_qual, q)
}

// ---------- code (bodies as in /repo with the two planned fixes D1 and D9 applied) ----------
pub fn encode_base(base: u8) -> (r: u8)
    ensures r == enc(base), r < 4
{
    let r = (base >> 1) & 0x3;
    assert(((base >> 1) & 0x3) < 4) by(bit_vector);
    r
}

pub fn valid_base(base: u8) -> (r: bool)
    ensures r == s_valid_base(base)
{
    base & 0xF != 14
}

pub trait UInt: Sized {
    fn zero_init() -> Self;
    fn from_encoded_base(encoded_base: u8) -> Self;
}
impl UInt for u64 {
    fn zero_init() -> (r: Self) ensures r == 0 { Self::from_encoded_base(0) }
    fn from_encoded_base(encoded_base: u8) -> (r: Self) ensures r == encoded_base as u64 { encoded_base as Self }
}

fn valid_qual<'a>(idx: usize, qual: Option<&'a [u8]>, min_qual: u8) -> (r: bool)
    requires qual.is_some() ==> idx < qual.unwrap()@.len() && qual.unwrap()@[idx as int] >= 33
    ensures r == qual_ok(qual, min_qual, idx as int)
{
    match qual {
        Some(qual_seq) => (qual_seq[idx] - 33) >= min_qual, // ASCII encoding starts from b'!' = 33
        None => true,
    }
}

proof fn lemma_upper_step(u: u64, b: u64, s: u64)
    requires s < 62, b < 4
    ensures ((u << s) << 2) | (b << s) == ((u << 2) | b) << s
{
    assert(((u << s) << 2) | (b << s) == ((u << 2) | b) << s) by(bit_vector) requires s < 62;
}

fn build<'a>(
    seq: &[u8],
    seq_len: usize,
    qual: Option<&'a [u8]>,
    k: usize,
    idx: &mut usize,
    qual_filter: &QualFilter,
    min_qual: u8,
    is_reads: bool,
    rc: bool,
) -> (res: Option<(u64, u64, u8)>)
    requires
        seq_len == seq@.len(),
        5 <= k <= 31, k % 2 == 1,
        *old(idx) <= seq_len,
        seq_len < usize::MAX - 64,
        qual.is_some() ==> qual.unwrap()@.len() == seq_len && (forall|p: int| 0 <= p < seq_len ==> qual.unwrap()@[p] >= 33),
    ensures
        ({
            let strict = *qual_filter == QualFilter::Strict;
            let h = ((k - 1) / 2) as int;
            match res {
                None => forall|p: int| *old(idx) <= p && p + k <= seq_len ==> !window_ok(seq@, qual, strict, min_qual, p, k as int),
                Some((upper, lower, middle)) => {
                    let p = *final(idx) - (k - 1);
                    &&& *old(idx) <= p && p + k <= seq_len
                    &&& window_ok(seq@, qual, strict, min_qual, p, k as int)
                    &&& forall|q: int| *old(idx) <= q < p ==> !window_ok(seq@, qual, strict, min_qual, q, k as int)
                    &&& upper == pack64(seq@.subrange(p, p + h)) << ((2 * h) as u64)
                    &&& middle == enc(seq@[p + h])
                    &&& lower == pack64(seq@.subrange(p + h + 1, p + k))
                }
            }
        })
{
    if *idx + k > seq_len {
        return None;
    }
    let mut upper = u64::zero_init();
    let mut lower = u64::zero_init();
    let mut middle_base: u8 = 0;
    let middle_idx = k.div_ceil(2) - 1;
    let mut i = 0;
    let ghost start = *idx;
    let ghost strict = *qual_filter == QualFilter::Strict;
    let ghost h = ((k - 1) / 2) as int;
    proof { let sh = (2*h) as u64; assert(0u64 << sh == 0) by(bit_vector); assert(seq@.subrange(*idx as int, *idx + 0) =~= Seq::<u8>::empty()); }
    while i < k
        invariant
            seq_len == seq@.len(), 5 <= k <= 31, k % 2 == 1, h == (k - 1) / 2, middle_idx == h,
            seq_len < usize::MAX - 64,
            strict == (*qual_filter == QualFilter::Strict),
            qual.is_some() ==> qual.unwrap()@.len() == seq_len && (forall|p: int| 0 <= p < seq_len ==> qual.unwrap()@[p] >= 33),
            start == *old(idx), start <= *idx, *idx + k <= seq_len, 0 <= i <= k,
            forall|q: int| start <= q < *idx ==> !window_ok(seq@, qual, strict, min_qual, q, k as int),
            forall|q: int| *idx <= q < *idx + i ==> pos_ok(seq@, qual, strict, min_qual, q),
            i <= h ==> upper == pack64(seq@.subrange(*idx as int, *idx + i)) << ((2 * h) as u64),
            i <= h ==> lower == 0,
            i > h ==> upper == pack64(seq@.subrange(*idx as int, *idx + h)) << ((2 * h) as u64),
            i > h ==> middle_base == enc(seq@[*idx + h]),
            i > h ==> lower == pack64(seq@.subrange(*idx + h + 1, *idx + i)),
        decreases (seq_len - *idx) * 64 + (k - i)
    {
        if valid_base(seq[i + *idx])
            && (*qual_filter != QualFilter::Strict
                || valid_qual(i + *idx, qual, min_qual))
        {
            // Checks for N or n
            let next_base = encode_base(seq[i + *idx]);
            match i.cmp(&middle_idx) {
                Ordering::Greater => {
                    proof {
                        let s0 = seq@.subrange(*idx + h + 1, *idx + i);
                        let s1 = seq@.subrange(*idx + h + 1, *idx + i + 1);
                        assert(s1.drop_last() =~= s0);
                        assert(s1.last() == seq@[*idx + i]);
                    }
                    lower <<= 2;
                    lower |= u64::from_encoded_base(next_base);
                }
                Ordering::Less => {
                    proof {
                        let s0 = seq@.subrange(*idx as int, *idx + i);
                        let s1 = seq@.subrange(*idx as int, *idx + i + 1);
                        assert(s1.drop_last() =~= s0);
                        assert(s1.last() == seq@[*idx + i]);
                        lemma_upper_step(pack64(s0), next_base as u64, (2 * h) as u64);
                    }
                    upper <<= 2;
                    upper |= u64::from_encoded_base(next_base) << (middle_idx * 2);
                }
                Ordering::Equal => {
                    proof {
                        assert(seq@.subrange(*idx + h + 1, *idx + i + 1) =~= Seq::<u8>::empty());
                    }
                    middle_base = next_base;
                }
            }
            i += 1;
        } else {
            // Start again, skipping over N
            proof {
                // every window starting in [*idx, *idx + i] contains the bad position *idx + i
                assert forall|q: int| *idx <= q <= *idx + i implies !window_ok(seq@, qual, strict, min_qual, q, k as int) by {
                    assert(!pos_ok(seq@, qual, strict, min_qual, *idx + i));
                }
            }
            *idx += i + 1;
            if *idx + k > seq_len {
                return None;
            }
            upper = u64::zero_init();
            lower = u64::zero_init();
            middle_base = 0;
            i = 0;
            proof { assert(seq@.subrange(*idx as int, *idx + 0) =~= Seq::<u8>::empty()); let sh = (2*h) as u64; assert(0u64 << sh == 0) by(bit_vector); }
        }
    }
    *idx += k - 1;
    Some((upper, lower, middle_base))
}

} // verus!
fn main() {}
