use vstd::prelude::*;
use std::collections::HashSet;
verus! {

pub open spec fn s_is_ambiguous(b: u8) -> bool {
    let l = b | 0x20u8;
    !(l == 0x61 || l == 0x63 || l == 0x67 || l == 0x74 || l == 0x75 || l == 0x2d)
}
pub fn is_ambiguous(mut base: u8) -> (r: bool)
    ensures r == s_is_ambiguous(base)
{
    base |= 0x20; // to lower
    !matches!(base, b'a' | b'c' | b'g' | b't' | b'u' | b'-')
}

// the NoConst arm of filter()'s keep_var match, verbatim statements
fn keep_noconst(row: &Vec<u8>, ignore_const_gaps: bool) -> (r: bool)
    ensures r == (exists|i: int, j: int| 0 <= i < row@.len() && 0 <= j < row@.len()
                    && (!ignore_const_gaps || row@[i] != 0x2du8) && (!ignore_const_gaps || row@[j] != 0x2du8)
                    && row@[i] != row@[j])
{
    broadcast use vstd::std_specs::hash::group_hash_axioms;
                        let mut var_types = HashSet::new();
                        for var in it: row
                            invariant_except_break
                                var_types@.len() <= 1,
                                forall|i: int| 0 <= i < it.index@ && (!ignore_const_gaps || row@[i] != 0x2du8) ==> var_types@.contains(#[trigger] row@[i]),
                            invariant
                                var_types@.finite(),
                                forall|x: u8| var_types@.contains(x) ==> (exists|i: int| 0 <= i < row@.len() && row@[i] == x && (!ignore_const_gaps || x != 0x2du8)),
                            ensures
                                var_types@.len() <= 1 ==> (forall|i: int| 0 <= i < row@.len() && (!ignore_const_gaps || row@[i] != 0x2du8) ==> var_types@.contains(#[trigger] row@[i])),
                        {
                            if !ignore_const_gaps || *var != b'-' {
                                var_types.insert(*var);
                                if var_types.len() > 1 {
                                    break;
                                }
                            }
                        }
                        proof {
                            let st = var_types@;
                            if st.len() > 1 {
                                let x = st.choose();
                                assert(st.contains(x));
                                let st2 = st.remove(x);
                                assert(st2.len() == st.len() - 1);
                                let y = st2.choose();
                                assert(st2.contains(y));
                                assert(st.contains(y) && x != y);
                                let i = choose|i: int| 0 <= i < row@.len() && row@[i] == x && (!ignore_const_gaps || x != 0x2du8);
                                let j = choose|j: int| 0 <= j < row@.len() && row@[j] == y && (!ignore_const_gaps || y != 0x2du8);
                                assert(0 <= i < row@.len() && 0 <= j < row@.len()
                                    && (!ignore_const_gaps || row@[i] != 0x2du8) && (!ignore_const_gaps || row@[j] != 0x2du8)
                                    && row@[i] != row@[j]);
                            } else {
                                // at most one member, and every eligible element is a member: all eligible elements are equal
                                assert forall|i: int, j: int| 0 <= i < row@.len() && 0 <= j < row@.len()
                                    && (!ignore_const_gaps || row@[i] != 0x2du8) && (!ignore_const_gaps || row@[j] != 0x2du8)
                                    implies row@[i] == row@[j] by {
                                    assert(st.contains(row@[i]) && st.contains(row@[j]));
                                    if row@[i] != row@[j] {
                                        let st2 = st.remove(row@[i]);
                                        assert(st2.contains(row@[j]));
                                        assert(st2.len() == st.len() - 1);
                                        vstd::set_lib::lemma_set_empty_equivalency_len(st2);
                                    }
                                }
                            }
                        }
                        var_types.len() > 1
}

// the NoAmbig arm
fn keep_noambig(row: &Vec<u8>) -> (r: bool)
    ensures r == (forall|i: int| 0 <= i < row@.len() ==> !s_is_ambiguous(#[trigger] row@[i]))
{
                        let mut keep = true;
                        for var in it: row
                            invariant_except_break
                                keep,
                                forall|i: int| 0 <= i < it.index@ ==> !s_is_ambiguous(#[trigger] row@[i]),
                            ensures
                                keep ==> (forall|i: int| 0 <= i < row@.len() ==> !s_is_ambiguous(#[trigger] row@[i])),
                                !keep ==> (exists|i: int| 0 <= i < row@.len() && s_is_ambiguous(#[trigger] row@[i])),
                        {
                            if is_ambiguous(*var) {
                                keep = false;
                                break;
                            }
                        }
                        keep
}
}
fn main() {}
