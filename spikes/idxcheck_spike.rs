use vstd::prelude::*;
verus! {

pub open spec fn off(r: Seq<Vec<u8>>, c: int) -> int
    decreases c
{
    if c <= 0 { 0 } else { off(r, c - 1) + r[c - 1]@.len() }
}

pub struct IdxCheck {
    end_coor: Vec<usize>,
}

impl IdxCheck {
    fn new(ref_seq: &[Vec<u8>]) -> (r: Self)
        requires off(ref_seq@, ref_seq@.len() as int) <= usize::MAX
        ensures
            r.end_coor@.len() == ref_seq@.len(),
            forall|i: int| 0 <= i < ref_seq@.len() ==> #[trigger] r.end_coor@[i] == off(ref_seq@, i + 1),
    {
        let mut end_coor = Vec::new();

        let mut cum_pos = 0;
        for chrom in it: ref_seq
            invariant
                cum_pos == off(ref_seq@, it.index@),
                end_coor@.len() == it.index@,
                off(ref_seq@, ref_seq@.len() as int) <= usize::MAX,
                forall|i: int| 0 <= i < it.index@ ==> #[trigger] end_coor@[i] == off(ref_seq@, i + 1),
        {
            proof { lemma_off_mono(ref_seq@, it.index@ + 1, ref_seq@.len() as int); }
            cum_pos += chrom.len();
            end_coor.push(cum_pos);
        }

        Self { end_coor }
    }
}

pub proof fn lemma_off_mono(r: Seq<Vec<u8>>, c: int, d: int)
    requires 0 <= c <= d <= r.len()
    ensures off(r, c) <= off(r, d)
    decreases d
{
    if c < d { lemma_off_mono(r, c, d - 1); }
}

pub struct IdxCheckIter<'a> {
    end_coor: &'a Vec<usize>,
    current_chr: usize,
    idx: usize,
}

impl IdxCheckIter<'_> {
    // ends are strictly increasing (no empty contig) and describe `off`
    spec fn ends_ok(&self, r: Seq<Vec<u8>>) -> bool {
        &&& self.end_coor@.len() == r.len() && r.len() >= 1 && r.len() <= usize::MAX
        &&& (forall|i: int| 0 <= i < r.len() ==> #[trigger] self.end_coor@[i] == off(r, i + 1))
        &&& (forall|i: int| 0 <= i < r.len() ==> #[trigger] r[i]@.len() > 0)
    }
    spec fn inv(&self, r: Seq<Vec<u8>>) -> bool {
        &&& self.ends_ok(r)
        &&& self.current_chr < r.len()
        &&& self.idx <= off(r, r.len() as int)
        &&& off(r, r.len() as int) <= usize::MAX
        // idx lies in the current contig, or exactly at its end (the step happens lazily)
        &&& off(r, self.current_chr as int) <= self.idx <= off(r, self.current_chr as int + 1)
    }

    fn next(&mut self, Ghost(r): Ghost<Seq<Vec<u8>>>) -> (res: Option<(usize, usize)>)
        requires old(self).inv(r)
        ensures
            final(self).end_coor == old(self).end_coor,
            old(self).idx < off(r, r.len() as int) ==> {
                &&& res.is_some()
                &&& res.unwrap().0 < r.len()
                &&& res.unwrap().1 < r[res.unwrap().0 as int]@.len()
                &&& off(r, res.unwrap().0 as int) + res.unwrap().1 == old(self).idx
                &&& final(self).idx == old(self).idx + 1
                &&& final(self).inv(r)
            },
            old(self).idx == off(r, r.len() as int) ==> res.is_none(),
    {
        proof {
            lemma_off_mono(r, self.current_chr as int + 1, r.len() as int);
            if self.current_chr + 2 <= r.len() { lemma_off_mono(r, self.current_chr as int + 2, r.len() as int); }
        }
        if self.idx >= self.end_coor[self.current_chr] {
            self.current_chr += 1;
        }
        if self.current_chr < self.end_coor.len() {
            let mut pos = self.idx;
            if self.current_chr > 0 {
                pos -= self.end_coor[self.current_chr - 1];
            }
            self.idx += 1;
            Some((self.current_chr, pos))
        } else {
            None
        }
    }
}
}
fn main() {}
