use vstd::prelude::*;
verus! {

// ---------- pack / code vocabulary over code sequences (values < 4) ----------
pub open spec fn codes_ok(c: Seq<u8>) -> bool { forall|i: int| 0 <= i < c.len() ==> #[trigger] c[i] < 4 }

pub open spec fn pack(c: Seq<u8>) -> u128
    decreases c.len()
{
    if c.len() == 0 { 0 } else { (pack(c.drop_last()) << 2) | (c.last() as u128) }
}

pub open spec fn mask(n: int) -> u128 { if n >= 128 { 0xFFFF_FFFF_FFFF_FFFF_FFFF_FFFF_FFFF_FFFFu128 } else { ((1u128 << (n as u128)) - 1) as u128 } }

// pack(c) fits in 2*len bits
pub proof fn lemma_pack_bound(c: Seq<u8>)
    requires codes_ok(c), c.len() <= 63
    ensures pack(c) & !mask(2 * (c.len() as int)) == 0
    decreases c.len()
{
    if c.len() == 0 {
        assert(0u128 & !mask(0) == 0) by(bit_vector);
    } else {
        lemma_pack_bound(c.drop_last());
        let p = pack(c.drop_last());
        let x = c.last() as u128;
        let n = (2 * (c.len() - 1)) as u128;
        let n2 = (2 * c.len()) as u128;
        assert(n2 == n + 2);
        assert(mask(2 * (c.len() - 1)) == ((1u128 << n) - 1) as u128);
        assert(mask(2 * (c.len() as int)) == ((1u128 << n2) - 1) as u128);
        assert(((p << 2) | x) & !(((1u128 << n2) - 1) as u128) == 0) by(bit_vector)
            requires p & !(((1u128 << n) - 1) as u128) == 0, x < 4, n2 == n + 2, n <= 124;
    }
}

// pack(a ++ [x]) by definition
pub proof fn lemma_pack_push(a: Seq<u8>, x: u8)
    ensures pack(a.push(x)) == (pack(a) << 2) | (x as u128)
{
    assert(a.push(x).drop_last() =~= a);
}

// dropping the first code masks off the top code
pub proof fn lemma_pack_drop_first(c: Seq<u8>)
    requires codes_ok(c), 1 <= c.len() <= 63
    ensures pack(c.drop_first()) == pack(c) & mask(2 * (c.len() - 1))
    decreases c.len()
{
    if c.len() == 1 {
        assert(c.drop_first() =~= Seq::<u8>::empty());
        assert(c.drop_last() =~= Seq::<u8>::empty());
        let x = c.last() as u128;
        assert(((0u128 << 2) | x) & (((1u128 << 0u128) - 1) as u128) == 0) by(bit_vector);
    } else {
        let d = c.drop_last();
        lemma_pack_drop_first(d);
        lemma_pack_bound(d);
        assert(c.drop_first().drop_last() =~= d.drop_first());
        assert(c.drop_first().last() == c.last());
        let p = pack(d);
        let x = c.last() as u128;
        let n = (2 * (c.len() - 2)) as u128;
        let n2 = (2 * (c.len() - 1)) as u128;
        assert((((p & (((1u128 << n) - 1) as u128)) << 2) | x) == ((p << 2) | x) & (((1u128 << n2) - 1) as u128)) by(bit_vector)
            requires x < 4, n2 == n + 2, n <= 122;
    }
}

// the code at position j (from the right)
pub proof fn lemma_code_at(c: Seq<u8>, j: int)
    requires codes_ok(c), c.len() <= 63, 0 <= j < c.len()
    ensures (pack(c) >> ((2 * j) as u128)) & 3 == c[c.len() - 1 - j] as u128
    decreases c.len()
{
    let p = pack(c.drop_last());
    let x = c.last() as u128;
    if j == 0 {
        assert((((p << 2) | x) >> 0u128) & 3 == x) by(bit_vector) requires x < 4;
    } else {
        lemma_code_at(c.drop_last(), j - 1);
        let s = (2 * j) as u128;
        let s1 = (2 * (j - 1)) as u128;
        assert((((p << 2) | x) >> s) & 3 == (p >> s1) & 3) by(bit_vector) requires x < 4, s == s1 + 2, s <= 126;
    }
}

pub proof fn lemma_pack_drop_last(c: Seq<u8>)
    requires codes_ok(c), 1 <= c.len() <= 63
    ensures pack(c.drop_last()) == pack(c) >> 2
{
    lemma_pack_bound(c.drop_last());
    let p = pack(c.drop_last());
    let x = c.last() as u128;
    let n = (2 * (c.len() - 1)) as u128;
    assert(((p << 2) | x) >> 2 == p) by(bit_vector) requires x < 4, p & !(((1u128 << n) - 1) as u128) == 0, n <= 124;
}

// prepending a code
pub proof fn lemma_pack_cons(x: u8, t: Seq<u8>)
    requires codes_ok(t), x < 4, t.len() <= 62
    ensures pack(seq![x] + t) == ((x as u128) << ((2 * t.len()) as u128)) | pack(t)
    decreases t.len()
{
    if t.len() == 0 {
        assert(seq![x] + t =~= seq![x]);
        assert(seq![x].drop_last() =~= Seq::<u8>::empty());
        let xx = x as u128;
        assert(pack(Seq::<u8>::empty()) == 0);
        assert(pack(seq![x]) == (pack(seq![x].drop_last()) << 2) | (seq![x].last() as u128));
        assert(pack(t) == 0);
        assert(((0u128 << 2) | xx) == (xx << 0u128) | 0u128) by(bit_vector);
    } else {
        let c = seq![x] + t;
        assert(c.drop_last() =~= seq![x] + t.drop_last());
        assert(c.last() == t.last());
        lemma_pack_cons(x, t.drop_last());
        let xx = x as u128;
        let y = t.last() as u128;
        let q = pack(t.drop_last());
        let n = (2 * (t.len() - 1)) as u128;
        let n2 = (2 * t.len()) as u128;
        assert(pack(c) == (pack(c.drop_last()) << 2) | (c.last() as u128));
        assert(pack(t) == (q << 2) | y);
        assert(pack(c.drop_last()) == (xx << n) | q);
        assert(((((xx << n) | q) << 2) | y) == (xx << n2) | ((q << 2) | y)) by(bit_vector) requires n2 == n + 2, n <= 122;
    }
}


// ---------- value determined by its codes ----------
pub proof fn lemma_ext(v: u128, c: Seq<u8>)
    requires
        codes_ok(c), c.len() <= 63,
        v & !mask(2 * (c.len() as int)) == 0,
        forall|j: int| 0 <= j < c.len() ==> (v >> ((2 * j) as u128)) & 3 == #[trigger] c[c.len() - 1 - j] as u128,
    ensures v == pack(c)
    decreases c.len()
{
    if c.len() == 0 {
        assert(v & !(((1u128 << 0u128) - 1) as u128) == 0 ==> v == 0) by(bit_vector);
    } else {
        let d = c.drop_last();
        let w = v >> 2;
        let n = (2 * c.len()) as u128;
        let n1 = (2 * (c.len() - 1)) as u128;
        assert(w & !(((1u128 << n1) - 1) as u128) == 0) by(bit_vector)
            requires v & !(((1u128 << n) - 1) as u128) == 0, n == n1 + 2, n <= 126, w == v >> 2;
        assert forall|j: int| 0 <= j < d.len() implies (w >> ((2 * j) as u128)) & 3 == #[trigger] d[d.len() - 1 - j] as u128 by {
            let s = (2 * j) as u128;
            let s1 = (2 * (j + 1)) as u128;
            assert(((v >> 2) >> s) & 3 == (v >> s1) & 3) by(bit_vector) requires s1 == s + 2, s1 <= 126;
            assert(c[c.len() - 1 - (j + 1)] == d[d.len() - 1 - j]);
        }
        lemma_ext(w, d);
        assert((v >> 0u128) & 3 == c[c.len() - 1 - 0] as u128);
        let x = c.last() as u128;
        assert(v == ((v >> 2) << 2) | x) by(bit_vector) requires (v >> 0u128) & 3 == x;
    }
}

pub open spec fn rcc(c: Seq<u8>) -> Seq<u8> { Seq::new(c.len(), |j: int| c[c.len() - 1 - j] ^ 2) }

// ---------- code under verification (u128 instantiation, fields of SplitKmer that matter) ----------
pub open spec fn net128(x: u128) -> u128 {
    let s = x;
    let s = (s >> 2 & 0x33333333333333333333333333333333) | (s & 0x33333333333333333333333333333333) << 2;
    let s = (s >> 4 & 0x0F0F0F0F0F0F0F0F0F0F0F0F0F0F0F0F) | (s & 0x0F0F0F0F0F0F0F0F0F0F0F0F0F0F0F0F) << 4;
    let s = (s >> 8 & 0x00FF00FF00FF00FF00FF00FF00FF00FF) | (s & 0x00FF00FF00FF00FF00FF00FF00FF00FF) << 8;
    let s = (s >> 16 & 0x0000FFFF0000FFFF0000FFFF0000FFFF) | (s & 0x0000FFFF0000FFFF0000FFFF0000FFFF) << 16;
    let s = (s >> 32 & 0x00000000FFFFFFFF00000000FFFFFFFF) | (s & 0x00000000FFFFFFFF00000000FFFFFFFF) << 32;
    let s = (s >> 64 & 0x0000000000000000FFFFFFFFFFFFFFFF) | (s & 0x0000000000000000FFFFFFFFFFFFFFFF) << 64;
    s ^ 0xAAAAAAAAAAAAAAAAAAAAAAAAAAAAAAAA
}

fn rev_comp(x: u128, k_size: usize) -> (r: u128)
    requires 1 <= k_size <= 64
    ensures
        r == net128(x) >> ((2 * (64 - k_size)) as u128),
        forall|j: int| 0 <= j < k_size ==> #[trigger] ((r >> ((2 * j) as u128)) & 3) == ((x >> ((2 * (k_size - 1 - j)) as u128)) & 3) ^ 2,
        k_size < 64 ==> r & !mask(2 * (k_size as int)) == 0,
{
    let mut s = x;
    s = (s >> 2 & 0x33333333333333333333333333333333) | (s & 0x33333333333333333333333333333333) << 2;
    s = (s >> 4 & 0x0F0F0F0F0F0F0F0F0F0F0F0F0F0F0F0F) | (s & 0x0F0F0F0F0F0F0F0F0F0F0F0F0F0F0F0F) << 4;
    s = (s >> 8 & 0x00FF00FF00FF00FF00FF00FF00FF00FF) | (s & 0x00FF00FF00FF00FF00FF00FF00FF00FF) << 8;
    s = (s >> 16 & 0x0000FFFF0000FFFF0000FFFF0000FFFF) | (s & 0x0000FFFF0000FFFF0000FFFF0000FFFF) << 16;
    s = (s >> 32 & 0x00000000FFFFFFFF00000000FFFFFFFF) | (s & 0x00000000FFFFFFFF00000000FFFFFFFF) << 32;
    s = (s >> 64 & 0x0000000000000000FFFFFFFFFFFFFFFF) | (s & 0x0000000000000000FFFFFFFFFFFFFFFF) << 64;
    // This reverse complements
    s ^= 0xAAAAAAAAAAAAAAAAAAAAAAAAAAAAAAAA;
    let r = s >> (2 * (64 - k_size));
    proof {
        let k = k_size as u128;
        assert forall|j: int| 0 <= j < k_size implies #[trigger] ((r >> ((2 * j) as u128)) & 3) == ((x >> ((2 * (k_size - 1 - j)) as u128)) & 3) ^ 2 by {
            let jj = j as u128;
            assert(((net128(x) >> ((2 * (64 - k)) as u128)) >> ((2 * jj) as u128)) & 3 == ((x >> ((2 * (k - 1 - jj)) as u128)) & 3) ^ 2) by(bit_vector)
                requires 1 <= k <= 64, jj < k;
        }
        if k_size < 64 {
            let n = (2 * k) as u128;
            assert((net128(x) >> ((2 * (64 - k)) as u128)) & !(((1u128 << n) - 1) as u128) == 0) by(bit_vector)
                requires 1 <= k < 64, n == 2 * k;
        }
    }
    // Shifts so LSB is at the bottom
    r
}


pub fn encode_base(base: u8) -> (r: u8) ensures r < 4, r == (base >> 1) & 3 { let r = (base >> 1) & 0x3; assert(((base >> 1) & 0x3) < 4) by(bit_vector); r }
pub fn rc_base(base: u8) -> (r: u8) ensures r == base ^ 2 { base ^ 2 }

fn generate_masks(k: usize) -> (r: (u128, u128))
    requires 5 <= k <= 63, k % 2 == 1
    ensures r.0 == mask(k - 1), r.1 == mask(k - 1) << ((k - 1) as u128)
{
    let half_size: usize = (k - 1) / 2;
    assert(1u128 << ((half_size * 2) as u128) >= 1) by(bit_vector) requires half_size * 2 <= 62;
    let lower_mask: u128 = (1 << (half_size * 2)) - 1;
    let upper_mask: u128 = lower_mask << (half_size * 2);
    (lower_mask, upper_mask)
}

pub struct SplitKmer {
    k: usize,
    upper_mask: u128,
    lower_mask: u128,
    upper: u128,
    lower: u128,
    middle_base: u8,
    rc: bool,
    rc_upper: u128,
    rc_lower: u128,
    rc_middle_base: u8,
}

impl SplitKmer {
    spec fn h(&self) -> int { (self.k - 1) / 2 }

    spec fn params_ok(&self) -> bool {
        &&& 5 <= self.k <= 63 && self.k % 2 == 1
        &&& self.lower_mask == mask(self.k - 1)
        &&& self.upper_mask == mask(self.k - 1) << ((self.k - 1) as u128)
    }

    // forward fields represent code window c (|c| == k)
    spec fn rep_fwd(&self, c: Seq<u8>) -> bool {
        let h = self.h();
        &&& c.len() == self.k && codes_ok(c)
        &&& self.upper == pack(c.subrange(0, h)) << ((2 * h) as u128)
        &&& self.middle_base == c[h]
        &&& self.lower == pack(c.subrange(h + 1, self.k as int))
    }

    spec fn rep_rc(&self, c: Seq<u8>) -> bool {
        let h = self.h();
        let r = rcc(c);
        &&& self.rc_upper == pack(r.subrange(0, h)) << ((2 * h) as u128)
        &&& self.rc_middle_base == r[h]
        &&& self.rc_lower == pack(r.subrange(h + 1, self.k as int))
    }

    // the non-N branch of roll_fwd, verbatim statements
    fn roll_step(&mut self, base: u8, Ghost(c): Ghost<Seq<u8>>)
        requires
            old(self).params_ok(),
            old(self).rep_fwd(c),
            old(self).rc ==> old(self).rep_rc(c),
        ensures
            final(self).params_ok(),
            final(self).k == old(self).k, final(self).rc == old(self).rc,
            final(self).rep_fwd(c.drop_first().push((base >> 1) & 3)),
            final(self).rc ==> final(self).rep_rc(c.drop_first().push((base >> 1) & 3)),
    {
            let half_k: usize = (self.k - 1) / 2;
            let new_base = encode_base(base);
            proof {
                lemma_roll_fwd(c, new_base, half_k as int);
                if self.rc { lemma_roll_rc(c, new_base, half_k as int); }
            }

            // Update the k-mer
            self.upper = (self.upper << 2
                | (((self.middle_base) as u128) << (half_k * 2)))
                & self.upper_mask;
            self.middle_base = ((self.lower >> (2 * (half_k - 1))) as u8);
            self.lower =
                ((self.lower << 2) | ((new_base) as u128)) & self.lower_mask;
            if self.rc {
                self.rc_lower = (self.rc_lower >> 2
                    | (((self.rc_middle_base) as u128) << (2 * (half_k - 1))))
                    & self.lower_mask;
                self.rc_middle_base = rc_base(self.middle_base);
                self.rc_upper = (self.rc_upper >> 2
                    | ((rc_base(new_base)) as u128) << (2 * ((half_k * 2) - 1)))
                    & self.upper_mask;
            }
    }
}


impl SplitKmer {
    fn update_rc(&mut self, Ghost(c): Ghost<Seq<u8>>)
        requires old(self).params_ok(), old(self).rep_fwd(c)
        ensures
            final(self).rep_rc(c),
            final(self).params_ok(), final(self).rep_fwd(c),
            final(self).k == old(self).k, final(self).rc == old(self).rc,
    {
        proof { lemma_update_rc(c, self.h()); }
        self.rc_upper = rev_comp(self.lower, self.k - 1) & self.upper_mask;
        self.rc_middle_base = rc_base(self.middle_base);
        self.rc_lower = rev_comp(self.upper, self.k - 1) & self.lower_mask;
    }
}

// rev_comp over the 2h-base split value, expressed on packed halves
proof fn lemma_update_rc(c: Seq<u8>, h: int)
    requires codes_ok(c), 2 <= h <= 31, c.len() == 2 * h + 1
    ensures ({
        let r = rcc(c);
        let u = pack(c.subrange(0, h));
        let l = pack(c.subrange(h + 1, 2 * h + 1));
        let hh = (2 * h) as u128;
        let mk = ((1u128 << hh) - 1) as u128;
        let sh = (2 * (64 - 2 * h)) as u128;
        &&& pack(r.subrange(0, h)) << hh == (net128(l) >> sh) & (mk << hh)
        &&& pack(r.subrange(h + 1, 2 * h + 1)) == (net128(u << hh) >> sh) & mk
        &&& r[h] == c[h] ^ 2
    })
{
    let k = 2 * h + 1;
    let r = rcc(c);
    let up = c.subrange(0, h);
    let lo = c.subrange(h + 1, k);
    let u = pack(up);
    let l = pack(lo);
    let hh = (2 * h) as u128;
    let mk = ((1u128 << hh) - 1) as u128;
    let sh = (2 * (64 - 2 * h)) as u128;
    let n = (2 * h) as u128;   // number of bases handed to rev_comp
    assert(mask(2 * h) == mk);
    lemma_pack_bound(up);
    lemma_pack_bound(lo);
    assert(codes_ok(r)) by {
        assert forall|i: int| 0 <= i < r.len() implies #[trigger] r[i] < 4 by {
            let x = c[c.len() - 1 - i];
            assert(x < 4 ==> x ^ 2 < 4) by(bit_vector);
        }
    }
    // --- rc_upper: top h bases of rev_comp(l, 2h) are the complemented reversed lower half
    let ru = r.subrange(0, h);      // ru[j] = comp(c[k-1-j]) = comp(lo[h-1-j])
    let v1 = ((net128(l) >> sh) & (mk << hh)) >> hh;
    assert(v1 & !mk == 0) by(bit_vector) requires v1 == ((net128(l) >> sh) & (mk << hh)) >> hh, mk == ((1u128 << hh) - 1) as u128, 4 <= hh <= 62;
    assert forall|j: int| 0 <= j < h implies (v1 >> ((2 * j) as u128)) & 3 == #[trigger] ru[ru.len() - 1 - j] as u128 by {
        // code j of v1 = code (h + j) of rev_comp(l, 2h) = comp(code (2h-1-(h+j)) of l) = comp(code (h-1-j) of l) = comp(lo[j])
        lemma_code_at(lo, h - 1 - j);
        let jj = (2 * j) as u128;
        let s1 = (2 * (h - 1 - j)) as u128;
        let x = lo[j] as u128;
        assert((v1 >> jj) & 3 == ((l >> s1) & 3) ^ 2) by(bit_vector)
            requires v1 == ((net128(l) >> sh) & (mk << hh)) >> hh, mk == ((1u128 << hh) - 1) as u128, sh == 2 * (64 - hh), 4 <= hh <= 62, jj + 2 <= hh, s1 == hh - 2 - jj, jj % 2 == 0, hh % 2 == 0;
        assert(ru[h - 1 - j] == lo[j] ^ 2);
        let y = lo[j];
        assert((y as u128) ^ 2 == (y ^ 2) as u128) by(bit_vector);
    }
    lemma_ext(v1, ru);
    assert((net128(l) >> sh) & (mk << hh) == v1 << hh) by(bit_vector)
        requires v1 == ((net128(l) >> sh) & (mk << hh)) >> hh, mk == ((1u128 << hh) - 1) as u128, 4 <= hh <= 62;
    // --- rc_lower: low h bases of rev_comp(u << 2h, 2h) are the complemented reversed upper half
    let rl = r.subrange(h + 1, k);  // rl[j] = comp(c[k-1-(h+1+j)]) = comp(up[h-1-j])
    let v2 = (net128(u << hh) >> sh) & mk;
    assert(v2 & !mk == 0) by(bit_vector) requires v2 == (net128(u << hh) >> sh) & mk;
    assert forall|j: int| 0 <= j < h implies (v2 >> ((2 * j) as u128)) & 3 == #[trigger] rl[rl.len() - 1 - j] as u128 by {
        // code j of rev_comp(U, 2h) = comp(code (2h-1-j) of U), U = u << 2h, = comp(code (h-1-j) of u) = comp(up[j])
        lemma_code_at(up, h - 1 - j);
        let jj = (2 * j) as u128;
        let s1 = (2 * (h - 1 - j)) as u128;
        assert((v2 >> jj) & 3 == ((u >> s1) & 3) ^ 2) by(bit_vector)
            requires v2 == (net128(u << hh) >> sh) & mk, mk == ((1u128 << hh) - 1) as u128, u & !mk == 0, sh == 2 * (64 - hh), 4 <= hh <= 62, jj + 2 <= hh, s1 == hh - 2 - jj, jj % 2 == 0, hh % 2 == 0;
        assert(rl[h - 1 - j] == up[j] ^ 2);
        let y = up[j];
        assert((y as u128) ^ 2 == (y ^ 2) as u128) by(bit_vector);
    }
    lemma_ext(v2, rl);
}

// facts about the forward half of a roll, stated on packed values
proof fn lemma_roll_fwd(c: Seq<u8>, b: u8, h: int)
    requires codes_ok(c), b < 4, 2 <= h <= 31, c.len() == 2 * h + 1
    ensures ({
        let c2 = c.drop_first().push(b);
        let u = pack(c.subrange(0, h));
        let l = pack(c.subrange(h + 1, 2 * h + 1));
        let m = c[h] as u128;
        let hh = (2 * h) as u128;
        let mk = ((1u128 << hh) - 1) as u128;
        &&& codes_ok(c2) && c2.len() == c.len()
        &&& pack(c2.subrange(0, h)) << hh == (((u << hh) << 2) | (m << hh)) & (mk << hh)
        &&& c2[h] as u128 == (l >> ((2 * (h - 1)) as u128))
        &&& c2[h] < 4
        &&& pack(c2.subrange(h + 1, 2 * h + 1)) == ((l << 2) | (b as u128)) & mk
    })
{
    let c2 = c.drop_first().push(b);
    let k = 2 * h + 1;
    let up = c.subrange(0, h);
    let lo = c.subrange(h + 1, k);
    let u = pack(up);
    let l = pack(lo);
    let m = c[h] as u128;
    let hh = (2 * h) as u128;
    let mk = ((1u128 << hh) - 1) as u128;
    assert(mask(2 * h) == mk);
    // upper: c2[0..h] = (up.push(c[h])).drop_first()
    let upx = up.push(c[h]);
    assert(c2.subrange(0, h) =~= upx.drop_first());
    assert(codes_ok(upx));
    lemma_pack_drop_first(upx);
    lemma_pack_push(up, c[h]);
    lemma_pack_bound(up);
    assert(pack(c2.subrange(0, h)) == ((u << 2) | m) & mk);
    assert((((u << 2) | m) & mk) << hh == (((u << hh) << 2) | (m << hh)) & (mk << hh)) by(bit_vector)
        requires u & !mk == 0, m < 4, mk == ((1u128 << hh) - 1) as u128, 4 <= hh <= 62;
    // middle: first code of lo
    assert(c2[h] == lo[0]);
    lemma_code_at(lo, h - 1);
    lemma_pack_bound(lo);
    let sh = (2 * (h - 1)) as u128;
    assert((l >> sh) & 3 == l >> sh) by(bit_vector) requires l & !mk == 0, mk == ((1u128 << hh) - 1) as u128, hh == sh + 2, sh <= 60;
    // lower: c2[h+1..k] = (lo.push(b)).drop_first()
    let lox = lo.push(b);
    assert(c2.subrange(h + 1, k) =~= lox.drop_first());
    assert(codes_ok(lox));
    lemma_pack_drop_first(lox);
    lemma_pack_push(lo, b);
}

proof fn lemma_roll_rc(c: Seq<u8>, b: u8, h: int)
    requires codes_ok(c), b < 4, 2 <= h <= 31, c.len() == 2 * h + 1
    ensures ({
        let c2 = c.drop_first().push(b);
        let r = rcc(c);
        let r2 = rcc(c2);
        let ru = pack(r.subrange(0, h));
        let rl = pack(r.subrange(h + 1, 2 * h + 1));
        let rm = r[h] as u128;
        let hh = (2 * h) as u128;
        let mk = ((1u128 << hh) - 1) as u128;
        &&& pack(r2.subrange(h + 1, 2 * h + 1)) == ((rl >> 2) | (rm << ((2 * (h - 1)) as u128))) & mk
        &&& r2[h] == c2[h] ^ 2
        &&& pack(r2.subrange(0, h)) << hh == (((ru << hh) >> 2) | (((b ^ 2) as u128) << ((2 * (2 * h - 1)) as u128))) & (mk << hh)
    })
{
    let c2 = c.drop_first().push(b);
    let k = 2 * h + 1;
    let r = rcc(c);
    let r2 = rcc(c2);
    let hh = (2 * h) as u128;
    let mk = ((1u128 << hh) - 1) as u128;
    assert(codes_ok(r)) by {
        assert forall|i: int| 0 <= i < r.len() implies #[trigger] r[i] < 4 by {
            let x = c[c.len() - 1 - i];
            assert(x < 4 ==> x ^ 2 < 4) by(bit_vector);
        }
    }
    assert(codes_ok(r2)) by {
        assert forall|i: int| 0 <= i < r2.len() implies #[trigger] r2[i] < 4 by {
            let x = c2[c2.len() - 1 - i];
            assert(x < 4 ==> x ^ 2 < 4) by(bit_vector);
        }
    }
    assert(b < 4 ==> b ^ 2 < 4) by(bit_vector);
    // r2 = [comp(b)] ++ r[0..k-1]
    let rlo = r.subrange(h + 1, k);
    let rup = r.subrange(0, h);
    // lower: r2[h+1..k] = [r[h]] ++ rlo.drop_last()
    assert(r2.subrange(h + 1, k) =~= seq![r[h]] + rlo.drop_last());
    lemma_pack_cons(r[h], rlo.drop_last());
    lemma_pack_drop_last(rlo);
    lemma_pack_bound(rlo);
    let rl = pack(rlo);
    let rm = r[h] as u128;
    let sh = (2 * (h - 1)) as u128;
    assert((rm << sh) | (rl >> 2) == ((rl >> 2) | (rm << sh)) & mk) by(bit_vector)
        requires rl & !mk == 0, rm < 4, mk == ((1u128 << hh) - 1) as u128, hh == sh + 2, 2 <= sh <= 60;
    // upper: r2[0..h] = [comp(b)] ++ rup.drop_last()
    assert(r2.subrange(0, h) =~= seq![b ^ 2] + rup.drop_last());
    lemma_pack_cons(b ^ 2, rup.drop_last());
    lemma_pack_drop_last(rup);
    lemma_pack_bound(rup);
    let ru = pack(rup);
    let cb = (b ^ 2) as u128;
    let s2 = (2 * (2 * h - 1)) as u128;
    assert(((cb << sh) | (ru >> 2)) << hh == (((ru << hh) >> 2) | (cb << s2)) & (mk << hh)) by(bit_vector)
        requires ru & !mk == 0, cb < 4, mk == ((1u128 << hh) - 1) as u128, hh == sh + 2, s2 == hh + sh, 2 <= sh <= 60;
}

} // verus!
fn main() {}
